#!/usr/bin/env python3
"""Translator: /repo Python source  ->  Lean 4 definitions (DESIGN.md §2.2).

Reads the anchored source files with `ast` and regenerates
lean/OQuPyVerif/Generated/<Fragment>.lean.  It never repairs what it reads: a
fragment whose shape it does not understand is an error (exit 2), which the
check treats as a broken tie.

Core: a translator for *small arithmetic function bodies* --
  statements : docstring | x = e | return e | if c: <block ending in return> |
               if c: ... else: ...  (both ending in return) | assert (skipped, recorded)
  expressions: names, int/float constants, + - * / // %, unary -, comparisons,
               and/or/not, int() float() abs() max() min() round(),
               np.round np.floor np.ceil np.abs, np.arange(n) (element index `k`),
               len(x) (free Int variable len_x), calls of other translated functions,
               attribute chains  self._a.b  ->  parameter  `b`
  types      : Int (Python int) and Flt (binary64, a rational in the FloatModel);
               inferred from annotations, constants and the typing table given
               per fragment.
"""
import argparse
import ast
import os
import re
import sys


class Untranslatable(Exception):
    pass


def attr_chain(node):
    parts = []
    while isinstance(node, ast.Attribute):
        parts.append(node.attr)
        node = node.value
    if isinstance(node, ast.Name):
        parts.append(node.id)
        return list(reversed(parts))
    return None


def lean_ident(s):
    s = s.lstrip("_")
    reserved = {"end", "from", "at", "in", "do", "then", "else", "if", "fun", "let",
                "have", "show", "with", "match", "open", "def", "theorem", "where"}
    if s in reserved:
        s = s + "'"
    return s


class FnTranslator:
    """Translate one function body (or a single expression) to a Lean term."""

    def __init__(self, types, helpers=None, attr_last=True):
        self.types = dict(types)          # name -> 'Int' | 'Flt' | 'Bool'
        self.helpers = helpers or {}      # python callee name -> (lean name, [arg types], ret type)
        self.free = []                    # free variables in order of first use
        self.asserts = []

    # -- variables -------------------------------------------------------
    def var(self, name, default=None):
        lname = lean_ident(name)
        if lname not in self.types:
            if default is None:
                raise Untranslatable("no type known for variable %r" % name)
            self.types[lname] = default
        if lname not in self.free and lname not in self.bound:
            self.free.append(lname)
        return lname, self.types[lname]

    bound = ()

    # -- expressions -----------------------------------------------------
    def to_flt(self, t):
        term, ty = t
        if ty == "Flt":
            return term
        if ty == "Int":
            return "(ofInt %s)" % term
        raise Untranslatable("cannot use %s as float" % ty)

    def expr(self, e):
        if isinstance(e, ast.Constant):
            if isinstance(e.value, bool):
                return ("true" if e.value else "false"), "Bool"
            if isinstance(e.value, int):
                return "(%d : Int)" % e.value, "Int"
            if isinstance(e.value, float):
                p, q = e.value.as_integer_ratio()
                return "(mkRat (%d) %d)" % (p, q), "Flt"
            raise Untranslatable("constant %r" % (e.value,))
        if isinstance(e, ast.Name):
            return self.var(e.id)
        if isinstance(e, ast.Attribute):
            ch = attr_chain(e)
            if ch is None:
                raise Untranslatable(ast.dump(e))
            if ch[:1] == ["np"] and ch[1:] == ["inf"]:
                raise Untranslatable("np.inf")
            return self.var(ch[-1])
        if isinstance(e, ast.UnaryOp):
            t, ty = self.expr(e.operand)
            if isinstance(e.op, ast.USub):
                return "(-%s)" % t, ty
            if isinstance(e.op, ast.Not):
                return "(!%s)" % t, "Bool"
            raise Untranslatable(ast.dump(e.op))
        if isinstance(e, ast.BinOp):
            a = self.expr(e.left)
            b = self.expr(e.right)
            op = e.op
            both_int = a[1] == "Int" and b[1] == "Int"
            if isinstance(op, (ast.Add, ast.Sub, ast.Mult)):
                sym = {ast.Add: "+", ast.Sub: "-", ast.Mult: "*"}[type(op)]
                fn = {ast.Add: "fadd", ast.Sub: "fsub", ast.Mult: "fmul"}[type(op)]
                if both_int:
                    return "(%s %s %s)" % (a[0], sym, b[0]), "Int"
                return "(%s %s %s)" % (fn, self.to_flt(a), self.to_flt(b)), "Flt"
            if isinstance(op, ast.Div):
                return "(fdiv %s %s)" % (self.to_flt(a), self.to_flt(b)), "Flt"
            if isinstance(op, ast.FloorDiv) and both_int:
                return "(Int.fdiv %s %s)" % (a[0], b[0]), "Int"
            if isinstance(op, ast.Mod) and both_int:
                return "(Int.fmod %s %s)" % (a[0], b[0]), "Int"
            raise Untranslatable("operator " + ast.dump(op))
        if isinstance(e, ast.Compare):
            if len(e.ops) != 1:
                raise Untranslatable("chained comparison")
            if isinstance(e.ops[0], (ast.Is, ast.IsNot)) \
                    and isinstance(e.comparators[0], ast.Constant) \
                    and e.comparators[0].value is None:
                # `x is None`  ->  Bool parameter  x_is_none   (C14 / LoopOrder)
                ch0 = attr_chain(e.left)
                if ch0 is None:
                    raise Untranslatable("`is None` of an expression")
                v, _ = self.var(lean_ident(ch0[-1]) + "_is_none", "Bool")
                return (v if isinstance(e.ops[0], ast.Is) else "(!%s)" % v), "Bool"
            a = self.expr(e.left)
            b = self.expr(e.comparators[0])
            sym = {ast.Lt: "<", ast.LtE: "≤", ast.Gt: ">", ast.GtE: "≥",
                   ast.Eq: "==", ast.NotEq: "!="}.get(type(e.ops[0]))
            if sym is None:
                raise Untranslatable("comparison " + ast.dump(e.ops[0]))
            if a[1] == "Int" and b[1] == "Int":
                x, y = a[0], b[0]
            else:
                # comparison of floats/ints is exact on the denoted rationals
                x = a[0] if a[1] == "Flt" else "((%s : Int) : Rat)" % a[0]
                y = b[0] if b[1] == "Flt" else "((%s : Int) : Rat)" % b[0]
            if sym in ("==", "!="):
                return "(%s %s %s)" % (x, sym, y), "Bool"
            return "(decide (%s %s %s))" % (x, sym, y), "Bool"
        if isinstance(e, ast.BoolOp):
            parts = [self.expr(v) for v in e.values]
            if any(p[1] != "Bool" for p in parts):
                raise Untranslatable("non-boolean operands of and/or")
            sym = " && " if isinstance(e.op, ast.And) else " || "
            return "(" + sym.join(p[0] for p in parts) + ")", "Bool"
        if isinstance(e, ast.IfExp):
            c = self.expr(e.test)
            a = self.expr(e.body)
            b = self.expr(e.orelse)
            if a[1] != b[1]:
                a, b = (self.to_flt(a), "Flt"), (self.to_flt(b), "Flt")
            return "(if %s then %s else %s)" % (c[0], a[0], b[0]), a[1]
        if isinstance(e, ast.Call):
            return self.call(e)
        raise Untranslatable("expression " + ast.dump(e)[:200])

    def call(self, e):
        ch = attr_chain(e.func)
        if ch is None:
            raise Untranslatable("call " + ast.dump(e.func)[:100])
        name = ".".join(ch)
        if name == "len":
            (a,) = e.args
            ch2 = attr_chain(a)
            if ch2 is None:
                raise Untranslatable("len of expression")
            return self.var("len_" + lean_ident(ch2[-1]), "Int")
        if name in ("np.min", "np.max") and len(e.args) == 1 and isinstance(e.args[0], ast.List):
            fn = name[3:]
            items = [self.expr(x) for x in e.args[0].elts]
            out = self.to_flt(items[0])
            for a in items[1:]:
                out = "(%s %s %s)" % (fn, out, self.to_flt(a))
            return out, "Flt"
        args = [self.expr(a) for a in e.args]
        if e.keywords:
            raise Untranslatable("keyword arguments in call of " + name)
        if name == "int":
            (a,) = args
            return (a[0], "Int") if a[1] == "Int" else ("(truncInt %s)" % a[0], "Int")
        if name == "float":
            (a,) = args
            return self.to_flt(a), "Flt"
        if name in ("abs", "np.abs"):
            (a,) = args
            if a[1] == "Int":
                return "((%s).natAbs : Int)" % a[0], "Int"
            return "(fabs %s)" % a[0], "Flt"
        if name in ("max", "min"):
            fn = name
            if all(a[1] == "Int" for a in args):
                out = args[0][0]
                for a in args[1:]:
                    out = "(%s %s %s)" % (fn, out, a[0])
                return out, "Int"
            out = self.to_flt(args[0])
            for a in args[1:]:
                out = "(%s %s %s)" % (fn, out, self.to_flt(a))
            return out, "Flt"
        if name in ("np.min", "np.max") and len(e.args) == 1 and isinstance(e.args[0], ast.List):
            fn = name[3:]
            items = [self.expr(x) for x in e.args[0].elts]
            out = self.to_flt(items[0])
            for a in items[1:]:
                out = "(%s %s %s)" % (fn, out, self.to_flt(a))
            return out, "Flt"
        if name in ("np.round", "round") and len(args) == 1:
            (a,) = args
            if a[1] == "Int":
                return a
            if name == "round":      # Python round(float) -> int
                return "(roundHalfEven %s)" % a[0], "Int"
            return "((roundHalfEven %s : Int) : Rat)" % a[0], "Flt"
        if name == "np.floor":
            (a,) = args
            return "((floorInt %s : Int) : Rat)" % self.to_flt(a), "Flt"
        if name == "np.ceil":
            (a,) = args
            return "((ceilInt %s : Int) : Rat)" % self.to_flt(a), "Flt"
        if name == "np.arange" and len(args) == 1:
            self.arange_len = args[0]
            return self.var("k", "Int")
        key = ch[-1]
        if key in self.helpers:
            lname, atypes, rtype = self.helpers[key]
            if len(atypes) != len(args):
                raise Untranslatable("arity of helper " + key)
            conv = []
            for a, ty in zip(args, atypes):
                if ty == "Flt":
                    conv.append(self.to_flt(a))
                elif ty == a[1]:
                    conv.append(a[0])
                else:
                    raise Untranslatable("argument type of helper " + key)
            return "(%s %s)" % (lname, " ".join(conv)), rtype
        raise Untranslatable("call of " + name)

    arange_len = None

    # -- statements ------------------------------------------------------
    def block(self, stmts, ret_type):
        """Translate a statement list that ends in return on every path."""
        if not stmts:
            raise Untranslatable("block falls off the end without return")
        s, rest = stmts[0], stmts[1:]
        if isinstance(s, ast.Expr) and isinstance(s.value, ast.Constant) \
                and isinstance(s.value.value, str):
            return self.block(rest, ret_type)
        if isinstance(s, ast.Assert):
            self.asserts.append(ast.unparse(s.test))
            return self.block(rest, ret_type)
        if isinstance(s, ast.Return):
            t = self.expr(s.value)
            if ret_type == "Flt":
                return self.to_flt(t)
            if t[1] != ret_type:
                raise Untranslatable("return type %s, expected %s" % (t[1], ret_type))
            return t[0]
        if isinstance(s, (ast.Assign, ast.AnnAssign)):
            if isinstance(s, ast.Assign):
                if len(s.targets) != 1 or not isinstance(s.targets[0], ast.Name):
                    raise Untranslatable("assignment target")
                tgt = s.targets[0].id
            else:
                tgt = s.target.id
            t = self.expr(s.value)
            l = lean_ident(tgt)
            self.types[l] = t[1]
            self.bound = tuple(self.bound) + (l,)
            ty = {"Int": "Int", "Flt": "Rat", "Bool": "Bool"}[t[1]]
            return "let %s : %s := %s\n  %s" % (l, ty, t[0], self.block(rest, ret_type))
        if isinstance(s, ast.If):
            c = self.expr(s.test)
            if c[1] != "Bool":
                raise Untranslatable("non-boolean if test")
            saved = (dict(self.types), self.bound)
            a = self.block(s.body, ret_type) if _ends_in_return(s.body) else None
            if a is None:
                raise Untranslatable("if-branch without return")
            self.types, self.bound = dict(saved[0]), saved[1]
            b = self.block(list(s.orelse) + ([] if _ends_in_return(s.orelse) else rest), ret_type)
            return "if %s then\n  %s\n  else\n  %s" % (c[0], a, b)
        raise Untranslatable("statement " + type(s).__name__)


def _ends_in_return(stmts):
    if not stmts:
        return False
    last = stmts[-1]
    if isinstance(last, ast.Return):
        return True
    if isinstance(last, ast.If):
        return _ends_in_return(last.body) and _ends_in_return(last.orelse)
    return False



def unwrap_progress_with(stmts):
    """`with get_progress(...)(...) as prog_bar: BODY`  ->  `prog_bar = get_progress(...)(...);
    prog_bar.enter(); BODY; prog_bar.exit()` — the bare statement sequence with the same order of
    operations.  Fragments that read statement ORDER use this so that guarding a progress report
    with `with` (what C19 demands) is not mistaken for a change of the loop they describe; the
    guarding style itself is read by the ProgressGuard fragment from the original AST."""
    out = []
    for s in stmts:
        if isinstance(s, ast.With) and len(s.items) == 1:
            it = s.items[0]
            ctx = it.context_expr
            if isinstance(ctx, ast.Call) and isinstance(ctx.func, ast.Call) \
                    and attr_chain(ctx.func.func) == ["get_progress"] \
                    and isinstance(it.optional_vars, ast.Name):
                name = it.optional_vars.id
                new = [ast.parse("%s = %s" % (name, ast.unparse(ctx))).body[0],
                       ast.parse("%s.enter()" % name).body[0]]
                last = ast.parse("%s.exit()" % name).body[0]
                for n in new + [last]:
                    for sub in ast.walk(n):
                        if hasattr(sub, "lineno"):
                            sub.lineno = s.lineno
                            sub.end_lineno = s.lineno
                out.extend(new)
                out.extend(unwrap_progress_with(s.body))
                out.append(last)
                continue
        out.append(s)
    return out

LTYPE = {"Int": "Int", "Flt": "Rat", "Bool": "Bool"}


class Source:
    def __init__(self, repo):
        self.repo = repo
        self.cache = {}

    def tree(self, rel):
        if rel not in self.cache:
            path = os.path.join(self.repo, rel)
            self.cache[rel] = ast.parse(open(path).read(), filename=path)
        return self.cache[rel]

    def function(self, rel, qual, raw=False):
        """qual = 'func' or 'Class.method'"""
        node = self.tree(rel)
        for part in qual.split("."):
            found = None
            for ch in node.body:
                if isinstance(ch, (ast.FunctionDef, ast.ClassDef)) and ch.name == part:
                    found = ch
                    break
            if found is None:
                raise Untranslatable("cannot find %s in %s" % (qual, rel))
            node = found
        if isinstance(node, ast.FunctionDef) and not raw:
            # statement-order readers see a progress `with` as its bare statement sequence
            import copy as _copy
            node = _copy.deepcopy(node)
            node.body = unwrap_progress_with(node.body)
        return node

    def assignment(self, fn, target):
        """The unique `target = expr` statement (at any depth) of a function."""
        hits = []
        for n in ast.walk(fn):
            if isinstance(n, ast.Assign) and len(n.targets) == 1:
                t = n.targets[0]
                if (isinstance(t, ast.Name) and t.id == target) or \
                        (isinstance(t, ast.Attribute) and attr_chain(t) and
                         ".".join(attr_chain(t)) == target):
                    hits.append(n)
        return hits


def emit_def(name, tr, body, ret_type, order=None, doc=None):
    params = order if order is not None else tr.free
    missing = [p for p in tr.free if p not in params]
    if missing:
        raise Untranslatable("%s reads %s which is not in the expected parameter list %s"
                             % (name, missing, params))
    sig = " ".join("(%s : %s)" % (p, LTYPE[tr.types.get(p, "Flt")]) for p in params)
    unused = [p for p in params if p not in tr.free]
    if unused:
        body = "let _unused := (%s)\n  %s" % (", ".join(unused), body)
    out = ""
    if doc:
        out += "/-- %s -/\n" % doc.replace("-/", "- /")
    out += "def %s %s : %s :=\n  %s\n" % (name, sig, LTYPE[ret_type], body)
    return out


def translate_function(src, rel, qual, lean_name, types, ret_type, params, helpers=None):
    fn = src.function(rel, qual)
    tr = FnTranslator(types, helpers)
    for a in fn.args.args:
        if a.arg == "self":
            continue
        la = lean_ident(a.arg)
        if la not in tr.types:
            ann = ast.unparse(a.annotation) if a.annotation is not None else None
            tr.types[la] = {"int": "Int", "float": "Flt", "bool": "Bool"}.get(ann, None) or "Flt"
    body = tr.block(fn.body, ret_type)
    doc = "%s:%d  %s" % (rel, fn.lineno, qual)
    return emit_def(lean_name, tr, body, ret_type, params, doc), tr


def translate_expr(src, rel, qual, target, lean_name, types, ret_type, params,
                   helpers=None, which=None):
    fn = src.function(rel, qual)
    hits = src.assignment(fn, target)
    if which is not None:
        hits = [h for h in hits if which(h)]
    if len(hits) != 1:
        raise Untranslatable("expected exactly one assignment to %s in %s:%s, found %d"
                             % (target, rel, qual, len(hits)))
    tr = FnTranslator(types, helpers)
    t = tr.expr(hits[0].value)
    term = tr.to_flt(t) if ret_type == "Flt" else t[0]
    if ret_type != "Flt" and t[1] != ret_type:
        raise Untranslatable("%s: type %s, expected %s" % (lean_name, t[1], ret_type))
    doc = "%s:%d  %s:  %s = %s" % (rel, hits[0].lineno, qual, target,
                                   ast.unparse(hits[0].value))
    return emit_def(lean_name, tr, term, ret_type, params, doc), tr


EXTRA_IMPORTS = {"InfluenceArgs": "import Mathlib.Algebra.Ring.Defs\n",
                 "DynamicsAdd": "import OQuPyVerif.Model.TimeGrid\n"}

HEADER = """/-
  GENERATED by tools/translate.py from /repo's working tree -- do not edit.
  Fragment: %s
-/
import OQuPyVerif.Num.FloatModel
%snamespace OQuPyVerif.Generated.%s
open OQuPyVerif.FloatModel
set_option linter.unusedVariables false

"""

FRAGMENTS = {}


def fragment(name):
    def deco(f):
        FRAGMENTS[name] = f
        return f
    return deco


# ---------------------------------------------------------------------------
# StepCount  (C13):  how many steps a computation takes and how states are labelled
# ---------------------------------------------------------------------------

def util_helpers(src, out):
    """Translate the time-grid helper(s) of oqupy/util.py if present."""
    helpers = {}
    try:
        fn = src.function("oqupy/util.py", "get_number_of_steps")
    except Untranslatable:
        return helpers
    text, tr = translate_function(
        src, "oqupy/util.py", "get_number_of_steps", "get_number_of_steps",
        {"start_time": "Flt", "end_time": "Flt", "dt": "Flt"}, "Int",
        ["start_time", "end_time", "dt"])
    out.append(text)
    helpers["get_number_of_steps"] = ("get_number_of_steps", ["Flt", "Flt", "Flt"], "Int")
    return helpers


@fragment("StepCount")
def frag_stepcount(src):
    out = []
    helpers = util_helpers(src, out)
    ty = {"start_time": "Flt", "dt": "Flt", "end_time": "Flt", "start_step": "Int",
          "step": "Int", "num_steps": "Int", "len_states": "Int",
          "len_system_states_list": "Int"}
    for cls, pre in (("Tempo", "tempo"), ("MeanFieldTempo", "mft")):
        t, _ = translate_function(src, "oqupy/tempo.py", cls + "._get_num_step",
                                  pre + "_num_step", ty, "Int",
                                  ["start_time", "dt", "start_step", "end_time"], helpers)
        out.append(t)
        t, _ = translate_function(src, "oqupy/tempo.py", cls + "._time",
                                  pre + "_time", ty, "Flt",
                                  ["start_time", "dt", "step"], helpers)
        out.append(t)
    t, _ = translate_expr(src, "oqupy/pt_tempo.py", "PtTempo.__init__", "tmp_num_steps",
                          "pt_num_steps", ty, "Int", ["start_time", "dt", "end_time"], helpers)
    out.append(t)
    # labels of compute_dynamics / compute_dynamics_with_field / compute_gradient_and_dynamics
    for rel, qual, pre, lenvar in (
            ("oqupy/system_dynamics.py", "compute_dynamics", "cd", "len_states"),
            ("oqupy/system_dynamics.py", "compute_dynamics_with_field", "cdwf",
             "len_system_states_list"),
            ("oqupy/gradient.py", "compute_gradient_and_dynamics", "grad", "len_states")):
        fn = src.function(rel, qual)
        hits = src.assignment(fn, "times")
        if len(hits) != 2:
            raise Untranslatable("%s: expected two assignments to `times`" % qual)
        for h in hits:
            tr = FnTranslator(ty, helpers)
            v = h.value
            if isinstance(v, ast.List):          # record_all = False : [ expr ]
                if len(v.elts) != 1:
                    raise Untranslatable("%s: final-only `times` is not a one-element list" % qual)
                term = tr.to_flt(tr.expr(v.elts[0]))
                name = pre + "_label_final"
                order = ["start_time", "dt", "num_steps", lenvar]
            else:                                # record_all = True : vector over k
                term = tr.to_flt(tr.expr(v))
                if tr.arange_len is None:
                    raise Untranslatable("%s: record_all `times` is not built from np.arange" % qual)
                name = pre + "_label_all"
                order = ["start_time", "dt", "num_steps", lenvar, "k"]
                tr2 = FnTranslator(ty, helpers)
                ar = [n for n in ast.walk(v) if isinstance(n, ast.Call)
                      and attr_chain(n.func) == ["np", "arange"]]
                ln = tr2.expr(ar[0].args[0])
                out.append(emit_def(pre + "_label_count", tr2, ln[0], "Int",
                                    ["num_steps", lenvar],
                                    "length of the np.arange in the record_all branch"))
            doc = "%s:%d  %s:  times = %s" % (rel, h.lineno, qual, ast.unparse(v))
            out.append(emit_def(name, tr, term, "Flt", order, doc))
    t, _ = translate_function(src, "oqupy/pt_tebd.py", "PtTebd.time", "tebd_time",
                              dict(ty, start_step="Int"), "Flt",
                              ["start_time", "dt", "start_step", "step"], helpers)
    out.append(t)
    out.append(_sc_tebd_compute_steps(src))
    out.append(_sc_resolve_num_steps(src))
    return "\n".join(out)


def _sc_int_expr(node, env, where):
    """integer expression over the entry state of PtTebd.compute"""
    if isinstance(node, ast.Constant) and isinstance(node.value, int) and not isinstance(node.value, bool):
        return "(%d : Int)" % node.value
    if isinstance(node, ast.Name):
        if node.id in env:
            return env[node.id]
        raise Untranslatable("%s: unknown name %s" % (where, node.id))
    ch = attr_chain(node)
    if ch in (["self", "step"], ["self", "_step"]):
        return env["self.step"]
    if ch in (["self", "_start_step"], ["self", "start_step"]):
        return "start_step"
    if isinstance(node, ast.BinOp) and isinstance(node.op, (ast.Add, ast.Sub, ast.Mult)):
        sym = {ast.Add: "+", ast.Sub: "-", ast.Mult: "*"}[type(node.op)]
        return "(%s %s %s)" % (_sc_int_expr(node.left, env, where), sym,
                               _sc_int_expr(node.right, env, where))
    if isinstance(node, ast.Call) and isinstance(node.func, ast.Name) and not node.keywords:
        if node.func.id in ("max", "min") and len(node.args) == 2:
            return "(%s %s %s)" % (node.func.id, _sc_int_expr(node.args[0], env, where),
                                   _sc_int_expr(node.args[1], env, where))
        if node.func.id == "int" and len(node.args) == 1:
            return _sc_int_expr(node.args[0], env, where)
    raise Untranslatable("%s: cannot read the integer expression %s" % (where, ast.unparse(node)))


def _sc_tebd_compute_steps(src):
    """Number of `compute_step()` calls made by `PtTebd.compute(end_step)` as a function of the
    constructor's start step, the current step on entry (after the initialise-if-fresh) and the
    requested end step."""
    rel, qual = "oqupy/pt_tebd.py", "PtTebd.compute"
    fn = src.function(rel, qual, raw=True)
    env = {"end_step": "end_step", "self.step": "cur"}
    counts = []

    def is_step_call(st):
        return isinstance(st, ast.Expr) and isinstance(st.value, ast.Call) \
            and attr_chain(st.value.func) == ["self", "compute_step"]

    def harmless(st):
        if isinstance(st, ast.Expr) and isinstance(st.value, ast.Constant):
            return True
        if isinstance(st, ast.Expr) and isinstance(st.value, ast.Call):
            ch = attr_chain(st.value.func)
            return bool(ch) and ch[0] in ("prog_bar", "progress")
        return False

    def loop_body(body, where):
        n = sum(1 for st in body if is_step_call(st))
        if n != 1 or any(not (is_step_call(st) or harmless(st)) for st in body):
            raise Untranslatable("%s: loop body is not one compute_step() call plus progress "
                                 "reports" % where)

    def visit(stmts):
        for st in stmts:
            text = ast.unparse(st).replace("\n", " ")
            if harmless(st) or isinstance(st, ast.Return):
                continue
            if isinstance(st, ast.Try):
                if len(st.body) == 1 and isinstance(st.body[0], ast.Assign) and not st.finalbody \
                        and not st.orelse and all(
                            len(h.body) == 1 and isinstance(h.body[0], ast.Raise) for h in st.handlers):
                    visit(st.body)
                    continue
                raise Untranslatable(qual + ": unexpected try block: " + text[:80])
            if isinstance(st, ast.If):
                if text.replace(" ", "") == "ifself.stepisNone:self.initialize()":
                    continue
                raise Untranslatable(qual + ": unexpected branch: " + text[:80])
            if isinstance(st, ast.Assign) and len(st.targets) == 1 and isinstance(st.targets[0], ast.Name):
                name = st.targets[0].id
                if name in ("progress", "title", "prog_bar"):
                    continue
                env[name] = _sc_int_expr(st.value, env, qual)
                continue
            if isinstance(st, ast.With):
                visit(st.body)
                continue
            if isinstance(st, ast.While):
                t = st.test
                if not (isinstance(t, ast.Compare) and len(t.ops) == 1 and isinstance(t.ops[0], ast.Lt)
                        and attr_chain(t.left) in (["self", "step"], ["self", "_step"])) or st.orelse:
                    raise Untranslatable(qual + ": while test is not `self.step < bound`: " + text[:80])
                loop_body(st.body, qual)
                bound = _sc_int_expr(t.comparators[0], env, qual)
                counts.append("(max 0 (%s - cur))" % bound)
                continue
            if isinstance(st, ast.For):
                it = st.iter
                if not (isinstance(it, ast.Call) and isinstance(it.func, ast.Name)
                        and it.func.id == "range" and len(it.args) == 1 and not st.orelse):
                    raise Untranslatable(qual + ": for loop is not over range(n): " + text[:80])
                loop_body(st.body, qual)
                counts.append("(max 0 %s)" % _sc_int_expr(it.args[0], env, qual))
                continue
            raise Untranslatable(qual + ": unexpected statement: " + text[:80])

    visit(fn.body)
    if len(counts) != 1:
        raise Untranslatable(qual + ": expected exactly one stepping loop, found %d" % len(counts))
    return ("/-- %s:%d  %s: number of `compute_step()` calls, from the constructor's start step, "
            "the current step on entry and the requested `end_step` -/\n"
            "def tebd_compute_steps (start_step : Int) (cur : Int) (end_step : Int) : Int :=\n"
            "  let _unused := (start_step, cur, end_step)\n  %s\n"
            % (rel, fn.lineno, qual, counts[0]))


def _sc_resolve_num_steps(src):
    """How `_compute_dynamics_input_parse` (shared by compute_dynamics,
    compute_dynamics_with_field and compute_gradient_and_dynamics) turns the caller's `num_steps`
    (possibly None) and the length of the shortest finite process tensor (possibly none) into the
    number of steps taken."""
    rel, qual = "oqupy/system_dynamics.py", "_compute_dynamics_input_parse"
    fn = src.function(rel, qual)
    for api_rel, api in (("oqupy/system_dynamics.py", "compute_dynamics"),
                         ("oqupy/gradient.py", "compute_gradient_and_dynamics")):
        text = ast.unparse(src.function(api_rel, api))
        if "_compute_dynamics_input_parse(False," not in text:
            raise Untranslatable("%s does not parse its input with %s" % (api, qual))
    if "_compute_dynamics_input_parse(True," not in ast.unparse(
            src.function("oqupy/system_dynamics.py", "compute_dynamics_with_field")):
        raise Untranslatable("compute_dynamics_with_field does not parse its input with " + qual)
    hits = [st for st in fn.body if isinstance(st, ast.If)
            and any(isinstance(n, ast.Name) and n.id == "num_steps" for n in ast.walk(st.test))]
    if len(hits) != 1:
        raise Untranslatable(qual + ": expected one branch on num_steps, found %d" % len(hits))
    st = hits[0]
    t = st.test
    given = "given"          # `num_steps is not None`
    if isinstance(t, ast.Compare) and len(t.ops) == 1 and isinstance(t.left, ast.Name) \
            and t.left.id == "num_steps" and isinstance(t.comparators[0], ast.Constant) \
            and t.comparators[0].value is None and isinstance(t.ops[0], (ast.IsNot, ast.Is)):
        cond = "ns.isSome" if isinstance(t.ops[0], ast.IsNot) else "ns.isNone"
    elif isinstance(t, ast.Name) and t.id == "num_steps":
        cond = "(ns.isSome && ns != some 0)"        # Python truthiness of an int-or-None
    elif isinstance(t, ast.UnaryOp) and isinstance(t.op, ast.Not) and isinstance(t.operand, ast.Name) \
            and t.operand.id == "num_steps":
        cond = "!(ns.isSome && ns != some 0)"
    else:
        raise Untranslatable(qual + ": cannot read the test on num_steps: " + ast.unparse(t))

    def branch(stmts):
        texts = [" ".join(ast.unparse(s).split()) for s in stmts]
        if len(texts) == 2 and texts[0] == "num_steps = check_convert(num_steps, int, 'num_steps')" \
                and texts[1].startswith("check_true(num_steps <= max_step,"):
            return ("match ns with\n      | some n => (match maxStep with\n"
                    "          | some m => if n <= m then .ok n else .error \"too-long\"\n"
                    "          | none => .ok n)\n      | none => .error \"type\"")
        if len(texts) == 2 and texts[0].startswith("check_true(max_step < np.inf,") \
                and texts[1] == "num_steps = int(max_step)":
            return ("match maxStep with\n      | some m => .ok m\n"
                    "      | none => .error \"unspecified\"")
        raise Untranslatable(qual + ": unexpected num_steps branch: " + " ; ".join(texts)[:160])

    ms = src.assignment(fn, "max_step")
    if len(ms) != 1 or " ".join(ast.unparse(ms[0].value).split()) != "np.min(max_steps + [np.inf])":
        raise Untranslatable(qual + ": max_step is not np.min(max_steps + [np.inf])")
    return ("/-- %s:%d  %s: the steps taken, from the caller's `num_steps` (`none` = not given) and "
            "the length of the shortest finite process tensor (`none` = no finite one) -/\n"
            "def cd_resolve_num_steps (ns : Option Int) (maxStep : Option Int) : Except String Int :=\n"
            "  if %s then\n    %s\n  else\n    %s\n"
            % (rel, st.lineno, qual, cond, branch(st.body), branch(st.orelse)))


# ---------------------------------------------------------------------------
# ControlCompose  (C18):  operand order of control composition, float-time -> step
# conversion, wiring of the superoperator applications, statement order of the
# step loops of compute_dynamics and PtTebd
# ---------------------------------------------------------------------------

CC_PREAMBLE = '''/-- Which side of the stored / accumulated operator the *other* operand of `@` is on:
    `newLeft`  : result = new @ acc   (the new operand acts after what is already there)
    `newRight` : result = acc @ new   (the new operand acts before what is already there) -/
inductive Side where
  | newLeft | newRight
  deriving DecidableEq, Repr

/-- where a contribution of `Control.get_controls` comes from -/
inductive Src where
  | timeKeyed | stepKeyed
  deriving DecidableEq, Repr

/-- outcome of the `isinstance` dispatch of `Control.add_single` -/
inductive KeyKind where
  | intKey | floatKey | reject
  deriving DecidableEq, Repr

/-- statements of the step loop of `compute_dynamics` -/
inductive LoopOp where
  | getControls | applyPre | breakIfLast | record | progress | applyPost
  | getPropagators | getMpos | applyP1 | applyMpo | applyP2 | recordFinal
  deriving DecidableEq, Repr

/-- statements of `PtTebd.initialize` / `PtTebd.compute_step` -/
inductive TebdOp where
  | setStep | buildPropagator | clearResults | initBackend | initResults
  | controlsPre | controlsPost | incStep | nnLayers | applyPTs | appendResults
  deriving DecidableEq, Repr
'''


def _cc_unparse(n):
    return ast.unparse(n).replace("\n", " ")


def _cc_side(binop, is_new, is_acc, where):
    """operand roles of  `x @ y`"""
    if not (isinstance(binop, ast.BinOp) and isinstance(binop.op, ast.MatMult)):
        raise Untranslatable("%s: expected `a @ b`, found %s" % (where, _cc_unparse(binop)))
    l, r = _cc_unparse(binop.left), _cc_unparse(binop.right)
    if is_new(l) and is_acc(r):
        return "newLeft"
    if is_acc(l) and is_new(r):
        return "newRight"
    raise Untranslatable("%s: cannot tell the operand roles in %s" % (where, _cc_unparse(binop)))


def _cc_strip(stmts):
    """drop docstrings and bare print(...) calls (no effect on the returned value)"""
    out = []
    for s in unwrap_progress_with(stmts):
        if isinstance(s, ast.Expr) and isinstance(s.value, ast.Constant):
            continue
        if isinstance(s, ast.Expr) and isinstance(s.value, ast.Call) \
                and _cc_unparse(s.value.func) == "print":
            continue
        out.append(s)
    return out


def _cc_add_single(src, out):
    rel = "oqupy/control.py"
    fn = src.function(rel, "Control.add_single")
    body = _cc_strip(fn.body)
    # if post: pre_post = 'post' else: pre_post = 'pre'
    if len(body) != 2 or " ".join(_cc_unparse(body[0]).split()) != \
            "if post: pre_post = 'post' else: pre_post = 'pre'":
        raise Untranslatable("Control.add_single: unexpected pre/post selection")
    disp = body[1]
    kinds, sides = [], {}
    node = disp
    while True:
        if not isinstance(node, ast.If):
            raise Untranslatable("Control.add_single: key dispatch is not an if/elif chain")
        test = " ".join(_cc_unparse(node.test).split())
        if test == "isinstance(time, int)":
            kind, store, member = "intKey", "self._step_controls[pre_post]", None
        elif test == "isinstance(time, float)":
            kind, store = "floatKey", "self._time_controls[pre_post]"
        else:
            raise Untranslatable("Control.add_single: unknown dispatch test " + test)
        kinds.append(kind)
        stmts = _cc_strip(node.body)
        # locate the `if <key present>: store[time] = a @ b  else: store[time] = control_operation ...`
        inner = [s for s in stmts if isinstance(s, ast.If)]
        if len(inner) != 1:
            raise Untranslatable("Control.add_single(%s): expected one presence test" % kind)
        inner = inner[0]
        itest = " ".join(_cc_unparse(inner.test).split())
        pre_stmts = [" ".join(_cc_unparse(s).split()) for s in stmts if s is not inner]
        if kind == "intKey":
            if pre_stmts != ["steps = self._step_controls[pre_post].keys()"] or itest != "time in steps":
                raise Untranslatable("Control.add_single(int): presence test is " + itest)
        else:
            if pre_stmts != [] or itest != "time in self._control_times[pre_post]":
                raise Untranslatable("Control.add_single(float): presence test is " + itest)
        if len(inner.body) != 1 or not isinstance(inner.body[0], ast.Assign) or \
                " ".join(_cc_unparse(inner.body[0].targets[0]).split()) != store + "[time]":
            raise Untranslatable("Control.add_single(%s): update branch" % kind)
        sides[kind] = _cc_side(inner.body[0].value,
                               lambda s: s == "control_operation",
                               lambda s, st=store: s == st + "[time]",
                               "Control.add_single(%s)" % kind)
        els = [" ".join(_cc_unparse(s).split()) for s in _cc_strip(inner.orelse)]
        if kind == "intKey":
            want = [store + "[time] = control_operation"]
        else:
            want = [store + "[time] = control_operation",
                    "times = np.append(self._control_times[pre_post], time)",
                    "times.sort()",
                    "self._control_times[pre_post] = times"]
        if els != want:
            raise Untranslatable("Control.add_single(%s): insert branch is %r" % (kind, els))
        if len(node.orelse) == 1 and isinstance(node.orelse[0], ast.If):
            node = node.orelse[0]
            continue
        if len(node.orelse) == 1 and isinstance(node.orelse[0], ast.Raise):
            kinds.append("reject")
            break
        raise Untranslatable("Control.add_single: end of the dispatch chain")
    if sorted(kinds) != ["floatKey", "intKey", "reject"]:
        raise Untranslatable("Control.add_single: dispatch kinds %r" % kinds)
    out.append("/-- %s:%d  Control.add_single: order of the isinstance tests on `time` -/\n"
               "def addSingle_dispatch : List KeyKind := [%s]\n"
               % (rel, fn.lineno, ", ".join("." + k for k in kinds)))
    out.append("/-- Control.add_single, int key already present:  %s -/\n"
               "def addSingle_step : Side := .%s\n"
               % ("new @ stored" if sides["intKey"] == "newLeft" else "stored @ new", sides["intKey"]))
    out.append("/-- Control.add_single, float key already present (new keys are appended to the time "
               "array, which is then sorted) -/\n"
               "def addSingle_time : Side := .%s\n" % sides["floatKey"])


class _CCSubst(ast.NodeTransformer):
    """replace  self._control_times['pre'|'post']  by the element variable `t`"""
    def visit_Subscript(self, node):
        s = _cc_unparse(node)
        if s in ("self._control_times['pre']", "self._control_times['post']"):
            return ast.copy_location(ast.Name(id="t", ctx=ast.Load()), node)
        return self.generic_visit(node)

    def visit_Call(self, node):
        # elementwise  x.astype(int)  is  int(x)  on every entry (truncation toward zero)
        node = self.generic_visit(node)
        if isinstance(node.func, ast.Attribute) and node.func.attr == "astype" \
                and len(node.args) == 1 and not node.keywords \
                and _cc_unparse(node.args[0]) in ("int", "np.int64", "np.int_"):
            return ast.copy_location(
                ast.Call(func=ast.Name(id="int", ctx=ast.Load()), args=[node.func.value], keywords=[]),
                node)
        return node


def _cc_get_controls(src, out):
    rel = "oqupy/control.py"
    fn = src.function(rel, "Control.get_controls")
    body = _cc_strip(fn.body)
    norm = lambda s: " ".join(_cc_unparse(s).split())
    events = {"pre": [], "post": []}
    inits, tail = {}, []
    cur_a = None          # (pp, expr) of the last  a = np.round(...)
    cur_times = None      # pp selected into `times`
    cur_steps = None      # pp of the last `steps = self._step_controls[pp].keys()`
    i = 0
    ty = {"t": "Flt", "start_time": "Flt", "dt": "Flt", "step": "Int", "a": "Flt"}
    for s in body:
        t = norm(s)
        if t in ("pre_control_bool = False", "post_control_bool = False"):
            continue
        mt = None
        for pp in ("pre", "post"):
            if t == "%s_control = np.identity(self.dimension ** 2)" % pp:
                inits[pp] = True
                mt = True
            if isinstance(s, ast.Assign) and norm(s.targets[0]) == "a" and \
                    ("self._control_times['%s']" % pp) in t:
                if ("self._control_times['%s']" % ("post" if pp == "pre" else "pre")) in t:
                    raise Untranslatable("get_controls: `a` mixes pre and post times")
                expr = _CCSubst().visit(ast.parse(_cc_unparse(s.value), mode="eval").body)
                tr = FnTranslator(ty)
                term = tr.to_flt(tr.expr(expr))
                out.append(emit_def("timeToStep_" + pp, tr, term, "Flt", ["t", "start_time", "dt"],
                                    "%s:%d  Control.get_controls:  a = %s   (elementwise; t = one "
                                    "entry of the %s time array)" % (rel, s.lineno, _cc_unparse(s.value), pp)))
                cur_a = pp
                mt = True
            if t == "times = np.array(self._control_times['%s'])[np.nonzero(a == step)]" % pp:
                if cur_a != pp:
                    raise Untranslatable("get_controls: `times` (%s) selected with the `a` of %s"
                                         % (pp, cur_a))
                out.append("/-- %s:%d  Control.get_controls:  %s -/\n"
                           "def timeSelect_%s (t : Rat) (start_time : Rat) (dt : Rat) (step : Int) : Bool :=\n"
                           "  (timeToStep_%s t start_time dt == ((step : Int) : Rat))\n"
                           % (rel, s.lineno, t, pp, pp))
                cur_times = pp
                mt = True
            if t == "steps = self._step_controls['%s'].keys()" % pp:
                cur_steps = pp
                mt = True
        if mt:
            continue
        if isinstance(s, ast.If):
            test = norm(s.test)
            inner = _cc_strip(s.body)
            if test == "len(times) > 0":
                pp = cur_times
                if pp is None:
                    raise Untranslatable("get_controls: `times` used before it is selected")
                tgt = None
                for cand in ("pre", "post"):
                    if norm(inner[0]) == "%s_control_bool = True" % cand:
                        tgt = cand
                if tgt is None or len(inner) != 3:
                    raise Untranslatable("get_controls: shape of the time-stamp block")
                a1, loop = inner[1], inner[2]
                acc = "%s_control" % tgt
                if not (isinstance(a1, ast.Assign) and norm(a1.targets[0]) == acc):
                    raise Untranslatable("get_controls: first time-stamp control")
                s1 = _cc_side(a1.value, lambda x: x == "self._time_controls['%s'][times[0]]" % pp,
                              lambda x: x == acc, "get_controls time-stamp (first)")
                if not (isinstance(loop, ast.For) and norm(loop.target) == "t"
                        and norm(loop.iter) == "times[1:]" and len(loop.body) == 1
                        and isinstance(loop.body[0], ast.Assign)
                        and norm(loop.body[0].targets[0]) == acc):
                    raise Untranslatable("get_controls: loop over the remaining time stamps")
                s2 = _cc_side(loop.body[0].value, lambda x: x == "self._time_controls['%s'][t]" % pp,
                              lambda x: x == acc, "get_controls time-stamp (loop)")
                if s1 != s2:
                    raise Untranslatable("get_controls: first and later time stamps compose differently")
                if tgt != pp:
                    raise Untranslatable("get_controls: %s control built from %s time stamps" % (tgt, pp))
                events[tgt].append(("timeKeyed", s1))
                continue
            if test == "step in steps":
                pp = cur_steps
                tgt = None
                for cand in ("pre", "post"):
                    if norm(inner[0]) == "%s_control_bool = True" % cand:
                        tgt = cand
                if tgt is None or len(inner) != 2 or pp is None:
                    raise Untranslatable("get_controls: shape of the step block")
                acc = "%s_control" % tgt
                a1 = inner[1]
                if not (isinstance(a1, ast.Assign) and norm(a1.targets[0]) == acc):
                    raise Untranslatable("get_controls: step control assignment")
                s1 = _cc_side(a1.value, lambda x: x == "self._step_controls['%s'][step]" % pp,
                              lambda x: x == acc, "get_controls step control")
                if tgt != pp:
                    raise Untranslatable("get_controls: %s control built from %s steps" % (tgt, pp))
                events[tgt].append(("stepKeyed", s1))
                continue
            if test in ("not pre_control_bool", "not post_control_bool"):
                pp = test.split()[1].split("_")[0]
                if [norm(x) for x in inner] != ["%s_control = None" % pp] or s.orelse:
                    raise Untranslatable("get_controls: None replacement for " + pp)
                tail.append(pp)
                continue
        if isinstance(s, ast.Return):
            if norm(s.value) not in ("(pre_control, post_control)", "pre_control, post_control"):
                raise Untranslatable("get_controls: return value " + norm(s.value))
            tail.append("return")
            continue
        raise Untranslatable("get_controls: unexpected statement: " + t[:120])
    if inits != {"pre": True, "post": True} or sorted(tail) != ["post", "pre", "return"] \
            or tail[-1] != "return":
        raise Untranslatable("get_controls: initialisation / None replacement / return shape")
    for pp in ("pre", "post"):
        if sorted(e[0] for e in events[pp]) != ["stepKeyed", "timeKeyed"]:
            raise Untranslatable("get_controls: %s control does not have exactly one time-stamp "
                                 "and one step contribution" % pp)
        out.append("/-- Control.get_controls: the contributions multiplied onto the identity, in "
                   "statement order, for the %s-measurement control (absent -> None) -/\n"
                   "def getControls_%s : List (Src × Side) := [%s]\n"
                   % (pp, pp, ", ".join("(.%s, .%s)" % e for e in events[pp])))


def _cc_chain(src, out):
    rel = "oqupy/control.py"
    norm = lambda s: " ".join(_cc_unparse(s).split())
    fn = src.function(rel, "ChainControl.add_single_site_control")
    body = [s for s in _cc_strip(fn.body) if not isinstance(s, ast.Assert)]
    if len(body) != 2 or norm(body[0]) != "contr = np.array(control, dtype=NpDtype)" \
            or not isinstance(body[1], ast.If) or norm(body[1].test) != "not post":
        raise Untranslatable("ChainControl.add_single_site_control: unexpected shape")
    for branch, lst in ((body[1].body, "pre"), (body[1].orelse, "post")):
        if len(branch) != 1:
            raise Untranslatable("ChainControl.add_single_site_control: branch shape")
        t = norm(branch[0])
        if not t.startswith("self._single_site_controls_%s.append({" % lst) or \
                "'contr': contr" not in t or "'site': site" not in t or "'step': step" not in t:
            raise Untranslatable("ChainControl.add_single_site_control: " + t[:100])
    out.append("/-- %s:%d  ChainControl.add_single_site_control appends {contr, site, step} to the "
               "pre list when `not post`, else to the post list (insertion order is kept) -/\n"
               "def chainAdd_appends : Bool := true\n" % (rel, fn.lineno))

    fn = src.function(rel, "ChainControl.get_single_site_controls")
    body = _cc_strip(fn.body)
    texts = [norm(s) for s in body]
    if len(body) != 6 or texts[0] != "empty = True" or texts[1] != "controls = [None] * len(self)" \
            or texts[2] != ("if not post: ss_controls = self._single_site_controls_pre "
                            "else: ss_controls = self._single_site_controls_post") \
            or texts[4] != "if empty: return None" or texts[5] != "return deepcopy(controls)":
        raise Untranslatable("ChainControl.get_single_site_controls: unexpected shape")
    loop = body[3]
    if not (isinstance(loop, ast.For) and norm(loop.target) == "ssc" and norm(loop.iter) == "ss_controls"
            and len(loop.body) == 1 and isinstance(loop.body[0], ast.If)
            and norm(loop.body[0].test) == "ssc['step'] == step" and not loop.body[0].orelse):
        raise Untranslatable("ChainControl.get_single_site_controls: loop shape")
    inner = loop.body[0].body
    if len(inner) != 2 or norm(inner[0]) != "empty = False" or not isinstance(inner[1], ast.If) \
            or norm(inner[1].test) != "controls[ssc['site']] is None" \
            or [norm(x) for x in inner[1].body] != ["controls[ssc['site']] = ssc['contr']"] \
            or len(inner[1].orelse) != 1 or not isinstance(inner[1].orelse[0], ast.Assign) \
            or norm(inner[1].orelse[0].targets[0]) != "controls[ssc['site']]":
        raise Untranslatable("ChainControl.get_single_site_controls: accumulation shape")
    side = _cc_side(inner[1].orelse[0].value, lambda x: x == "ssc['contr']",
                    lambda x: x == "controls[ssc['site']]", "ChainControl.get_single_site_controls")
    out.append("/-- %s:%d  ChainControl.get_single_site_controls: entries of the step are visited in "
               "insertion order; a later entry for the same site is combined as  %s -/\n"
               "def chainGet : Side := .%s\n"
               % (rel, inner[1].orelse[0].lineno, norm(inner[1].orelse[0].value), side))


def _cc_wiring(src, out):
    norm = lambda s: " ".join(_cc_unparse(s).split())
    # _apply_system_superoperator
    rel = "oqupy/system_dynamics.py"
    fn = src.function(rel, "_apply_system_superoperator")
    texts = [norm(s) for s in _cc_strip(fn.body)]
    want_head = "if sup_op is None: return (current_node, current_edges)"
    if len(texts) != 7 or texts[0] != want_head \
            or texts[1] not in ("sup_op_node = tn.Node(sup_op.T)", "sup_op_node = tn.Node(sup_op)") \
            or texts[4] != "current_node = current_node @ sup_op_node" \
            or texts[5] != "current_edges[-1] = new_sys_edge" \
            or texts[6] != "return (current_node, current_edges)":
        raise Untranslatable("_apply_system_superoperator: unexpected shape %r" % texts)
    transposed = texts[1].endswith(".T)")
    m1 = {"current_edges[-1] ^ sup_op_node[0]": 0, "current_edges[-1] ^ sup_op_node[1]": 1}.get(texts[2])
    m2 = {"new_sys_edge = sup_op_node[0]": 0, "new_sys_edge = sup_op_node[1]": 1}.get(texts[3])
    if m1 is None or m2 is None or m1 == m2:
        raise Untranslatable("_apply_system_superoperator: edge wiring")
    out.append("/-- %s:%d  _apply_system_superoperator: the node holds `sup_op.T` (true) or `sup_op`; "
               "its index `contract` is joined to the state leg, the other index becomes the state leg -/\n"
               "def sysSuperop_transposed : Bool := %s\ndef sysSuperop_contract : Nat := %d\n"
               % (rel, fn.lineno, "true" if transposed else "false", m1))
    # apply_site_gate
    rel = "oqupy/backends/pt_tebd_backend.py"
    fn = src.function(rel, "PtTebdBackend.apply_site_gate")
    texts = [norm(s) for s in _cc_strip(fn.body) if not isinstance(s, ast.Assert)]
    if len(texts) != 7 or texts[0] != "site = gate.sites[0]" \
            or texts[1] not in ("matrix = tn.Node(gate.tensors[0])", "matrix = tn.Node(gate.tensors[0].T)") \
            or texts[4] != "gam = self._gammas[site] @ matrix" \
            or not texts[5].startswith("gam.reorder_edges([self._lam_gam_es[site], self._phys_es[site],") \
            or texts[6] != "self._gammas[site] = gam":
        raise Untranslatable("apply_site_gate: unexpected shape %r" % texts)
    transposed = texts[1].endswith(".T)")
    m1 = {"matrix[0] ^ self._phys_es[site]": 0, "matrix[1] ^ self._phys_es[site]": 1}.get(texts[2])
    m2 = {"self._phys_es[site] = matrix[0]": 0, "self._phys_es[site] = matrix[1]": 1}.get(texts[3])
    if m1 is None or m2 is None or m1 == m2:
        raise Untranslatable("apply_site_gate: edge wiring")
    out.append("/-- %s:%d  PtTebdBackend.apply_site_gate (same convention) -/\n"
               "def siteGate_transposed : Bool := %s\ndef siteGate_contract : Nat := %d\n"
               % (rel, fn.lineno, "true" if transposed else "false", m1))
    fn = src.function(rel, "PtTebdBackend.apply_site_gate_layer")
    texts = [norm(s) for s in _cc_strip(fn.body)]
    if texts != ["for gate in gate_layer.gates: self.apply_site_gate(gate)"]:
        raise Untranslatable("apply_site_gate_layer: unexpected shape %r" % texts)


def _cc_cd_loop(src, out):
    rel = "oqupy/system_dynamics.py"
    norm = lambda s: " ".join(_cc_unparse(s).split())
    fn = src.function(rel, "compute_dynamics")
    # the inner `controls(step)` closure
    inner = [s for s in fn.body if isinstance(s, ast.FunctionDef) and s.name == "controls"]
    if len(inner) != 1 or [norm(s) for s in _cc_strip(inner[0].body)] != \
            ["return control.get_controls(step, dt=dt, start_time=start_time)"] \
            or [a.arg for a in inner[0].args.args] != ["step"]:
        raise Untranslatable("compute_dynamics: the `controls` closure")
    loops = [(i, s) for i, s in enumerate(fn.body) if isinstance(s, ast.For)]
    if len(loops) != 1:
        raise Untranslatable("compute_dynamics: expected exactly one top-level for loop")
    idx, loop = loops[0]
    if norm(loop.target) != "step" or norm(loop.iter) != "range(num_steps + 1)" or loop.orelse:
        raise Untranslatable("compute_dynamics: loop header " + norm(loop.iter))
    # everything before the loop: straight-line preparation, no early exit for any num_steps
    # (so the loop runs for every N >= 0, in particular once for N = 0)
    prelude = [
        "parsed_parameters = _compute_dynamics_input_parse(False, system, initial_state, dt, "
        "num_steps, start_time, process_tensor, control, record_all)",
        "system, initial_state, dt, num_steps, start_time, process_tensors, control, record_all, "
        "hs_dim = parsed_parameters",
        "num_envs = len(process_tensors)",
        "propagators = system.get_propagators(dt, start_time, subdiv_limit, liouvillian_epsrel)",
        "def controls(step: int): return control.get_controls(step, dt=dt, start_time=start_time)",
        "initial_ndarray = initial_state.reshape(hs_dim ** 2)",
        "initial_ndarray.shape = tuple([1] * num_envs + [hs_dim ** 2])",
        "current_node = tn.Node(initial_ndarray)",
        "current_edges = current_node[:]",
        "states = []",
    ]
    got = [norm(s) for s in _cc_strip(fn.body[:idx])
           if not norm(s).startswith(("title = ", "prog_bar = get_progress(", "prog_bar.enter()"))]
    if got != prelude:
        bad = [g for g in got if g not in prelude] or ["(statements missing or reordered)"]
        raise Untranslatable("compute_dynamics: unexpected statement before the step loop: "
                             + bad[0][:140])
    sysop = "current_node, current_edges = _apply_system_superoperator(current_node, current_edges, %s)"
    simple = {
        "pre_measurement_control, post_measurement_control = controls(step)": "getControls",
        "if pre_measurement_control is not None: " + sysop % "pre_measurement_control": "applyPre",
        "if step == num_steps: break": "breakIfLast",
        "if record_all: caps = _get_caps(process_tensors, step) "
        "state_tensor = _apply_caps(current_node, current_edges, caps) "
        "state = state_tensor.reshape(hs_dim, hs_dim) states.append(state)": "record",
        "prog_bar.update(step)": "progress",
        "if post_measurement_control is not None: " + sysop % "post_measurement_control": "applyPost",
        "first_half_prop, second_half_prop = propagators(step)": "getPropagators",
        "pt_mpos = _get_pt_mpos(process_tensors, step)": "getMpos",
        sysop % "first_half_prop": "applyP1",
        "current_node, current_edges = _apply_pt_mpos(current_node, current_edges, pt_mpos)": "applyMpo",
        sysop % "second_half_prop": "applyP2",
    }
    tags = []
    for s in _cc_strip(loop.body):
        t = norm(s)
        if t not in simple:
            raise Untranslatable("compute_dynamics loop: unexpected statement: " + t[:140])
        tags.append(simple[t])
    out.append("/-- %s:%d  compute_dynamics:  for step in range(num_steps + 1): ...   (statement order; "
               "`controls(step)` = control.get_controls(step, dt=dt, start_time=start_time)) -/\n"
               "def cdLoopBody : List LoopOp := [%s]\n"
               % (rel, loop.lineno, ", ".join("." + t for t in tags)))
    after = []
    for s in fn.body[idx + 1:]:
        t = norm(s)
        if t.startswith("prog_bar."):
            continue
        after.append(t)
    want = ["caps = _get_caps(process_tensors, step)",
            "state_tensor = _apply_caps(current_node, current_edges, caps)",
            "final_state = state_tensor.reshape(hs_dim, hs_dim)",
            "states.append(final_state)"]
    if after[:4] != want or not after[4].startswith("if record_all: times =") \
            or after[5:] != ["return Dynamics(times=list(times), states=states)"]:
        raise Untranslatable("compute_dynamics: statements after the loop: %r" % after)
    out.append("/-- compute_dynamics, after the loop: the state is read out once more with the caps of "
               "the loop variable's last value and appended -/\n"
               "def cdAfterLoop : List LoopOp := [.recordFinal]\n")
    out.append("/-- compute_dynamics: between input parsing and the step loop there is only straight-line "
               "preparation (no early return), so the loop body runs for every num_steps >= 0 -/\n"
               "def cdLoopRunsForEveryN : Bool := true\n")


def _cc_tebd(src, out):
    rel = "oqupy/pt_tebd.py"
    norm = lambda s: " ".join(_cc_unparse(s).split())
    layer = "for gate_layer in self._tebd_propagator.gate_layers: self._t_mps.apply_nn_gate_layer(gate_layer)"
    table = {
        "self._step = self._start_step": "setStep",
        "self._results = {}": "clearResults",
        "self._init_results()": "initResults",
        "self._apply_controls(step=self.step, post=False)": "controlsPre",
        "self._apply_controls(step=self.step, post=True)": "controlsPost",
        "self._append_results()": "appendResults",
        "self._step += 1": "incStep",
        layer: "nnLayers",
        "self._t_mps.apply_process_tensors(self.step, self._process_tensors)": "applyPTs",
    }
    # object lifetime: PtTebd keeps a REFERENCE to the ChainControl and looks controls up when a
    # step is taken; no attribute may cache anything derived from the chain control
    cls = src.function(rel, "PtTebd")
    for node in ast.walk(cls):
        if isinstance(node, (ast.Assign, ast.AugAssign, ast.AnnAssign)):
            tgts = node.targets if isinstance(node, ast.Assign) else [node.target]
            val = node.value
            if val is None:
                continue
            mentions = any((isinstance(n, ast.Name) and n.id == "chain_control") or
                           (isinstance(n, ast.Attribute) and n.attr in ("_chain_control", "chain_control"))
                           for n in ast.walk(val))
            for t in tgts:
                tt = norm(t)
                if mentions and tt.startswith("self.") and tt != "self._chain_control":
                    raise Untranslatable("PtTebd caches a property of the chain control in %s "
                                         "(line %d): controls added later would not be seen"
                                         % (tt, node.lineno))
                if tt == "self._chain_control" and norm(val) not in (
                        "chain_control", "ChainControl(hilbert_space_dimensions=self._system_chain.hs_dims)",
                        "ChainControl(hilbert_space_dimensions=hs_dims)"):
                    raise Untranslatable("PtTebd stores %s as its chain control (a copy / derived "
                                         "object would miss later additions)" % norm(val)[:80])
    reads = [n for n in ast.walk(cls) if isinstance(n, ast.Attribute) and n.attr == "_chain_control"
             and isinstance(n.ctx, ast.Load)]
    where = set()
    for m in cls.body:
        if isinstance(m, ast.FunctionDef):
            if any(r in list(ast.walk(m)) for r in reads):
                where.add(m.name)
    if not where <= {"_apply_controls", "chain_control"}:
        raise Untranslatable("PtTebd reads self._chain_control outside _apply_controls / the "
                             "chain_control property: %s" % sorted(where))
    out.append("/-- %s: PtTebd assigns self._chain_control only the object it is given (or a fresh "
               "empty ChainControl), derives no other attribute from it, and reads it only in "
               "_apply_controls (at the moment a step is taken) and in the chain_control property -/\n"
               "def tebdControlByReference : Bool := true\n" % rel)
    for qual, name in (("PtTebd.initialize", "tebdInitialize"), ("PtTebd.compute_step", "tebdComputeStep")):
        fn = src.function(rel, qual)
        tags = []
        for s in _cc_strip(fn.body):
            t = norm(s)
            if t.startswith("self._tebd_propagator = compute_tebd_propagator("):
                tags.append("buildPropagator")
            elif t.startswith("self._t_mps = PtTebdBackend("):
                tags.append("initBackend")
            elif t in table:
                tags.append(table[t])
            else:
                raise Untranslatable("%s: unexpected statement: %s" % (qual, t[:140]))
        out.append("/-- %s:%d  %s (statement order) -/\ndef %s : List TebdOp := [%s]\n"
                   % (rel, fn.lineno, qual, name, ", ".join("." + t for t in tags)))
    # _apply_controls: one site gate per site that has a control, applied through the backend
    fn = src.function(rel, "PtTebd._apply_controls")
    texts = [norm(s) for s in _cc_strip(fn.body)]
    want = ["controls = self._chain_control.get_single_site_controls(step, post)",
            "if controls is None: return",
            "control_gates = []",
            "for site, control in enumerate(controls): if control is not None: "
            "control_gates.append(SiteGate(site, control))",
            "control_gate_layer = GateLayer(parallel=True, gates=control_gates)",
            "self._t_mps.apply_site_gate_layer(control_gate_layer)"]
    if texts != want:
        raise Untranslatable("PtTebd._apply_controls: unexpected shape %r" % texts)
    # the step property and the results use the current step
    fn = src.function(rel, "PtTebd._append_results")
    texts = [norm(s) for s in _cc_strip(fn.body)]
    if texts[:2] != ["self._t_mps.compute_traces(self._step, self._process_tensors)",
                     "time = self.time(self._step)"]:
        raise Untranslatable("PtTebd._append_results: does not read the current step first")
    fn = src.function(rel, "PtTebd.compute")
    text = norm(fn)
    if "if self.step is None: self.initialize()" not in text or \
            "while self.step < tmp_end_step: self.compute_step()" not in text:
        raise Untranslatable("PtTebd.compute: initialise-if-fresh / while step < end_step shape")
    out.append("/-- %s:%d  PtTebd.compute: `if self.step is None: self.initialize()` then "
               "`while self.step < end_step: self.compute_step()`; _apply_controls turns the list "
               "returned by get_single_site_controls(step, post) into one SiteGate per site with a "
               "control; _append_results reads the current step -/\n"
               "def tebdCompute_shape_checked : Bool := true\n" % (rel, fn.lineno))


@fragment("ControlCompose")
def frag_controlcompose(src):
    out = [CC_PREAMBLE]
    _cc_add_single(src, out)
    _cc_get_controls(src, out)
    _cc_chain(src, out)
    _cc_wiring(src, out)
    _cc_cd_loop(src, out)
    _cc_tebd(src, out)
    return "\n".join(out)


# ---------------------------------------------------------------------------
# CorrTimes  (C07):  time specifications of compute_correlations(_nt) -> steps,
#                    returned time axes, which dt goes where, index write-back shape
# ---------------------------------------------------------------------------

class _C07Tr(FnTranslator):
    """FnTranslator + `name[<int const>]` -> variable `name_<int>` (tuple components)."""

    def expr(self, e):
        if isinstance(e, ast.Subscript) and isinstance(e.value, ast.Name) \
                and isinstance(e.slice, ast.Constant) and isinstance(e.slice.value, int) \
                and not isinstance(e.slice.value, bool) and e.slice.value >= 0:
            return self.var("%s_%d" % (e.value.id, e.slice.value))
        return super().expr(e)


def _c07_lstr(s):
    return '"' + s.replace("\\", "\\\\").replace('"', '\\"') + '"'


def _c07_lstrs(xs):
    return "[" + ", ".join(_c07_lstr(x) for x in xs) + "]"


def _c07_lpairs(xs):
    return "[" + ", ".join("(%s, %s)" % (_c07_lstr(a), _c07_lstr(b)) for a, b in xs) + "]"


def _c07_corr_def(name, node, types, ret, params, doc):
    tr = _C07Tr(types)
    t = tr.expr(node)
    if t[1] != ret:
        raise Untranslatable("%s: type %s, expected %s" % (name, t[1], ret))
    return emit_def(name, tr, t[0], ret, params, doc)


def _c07_isinstance_chain(fn, var):
    """top-level `if isinstance(var, T): .. elif isinstance(var, U): .. else: ..`
    -> ([(type names, body)], else body)"""
    def names_of(test):
        if not (isinstance(test, ast.Call) and attr_chain(test.func) == ["isinstance"]
                and len(test.args) == 2 and isinstance(test.args[0], ast.Name)
                and test.args[0].id == var):
            return None
        t = test.args[1]
        elts = t.elts if isinstance(t, ast.Tuple) else [t]
        if not all(isinstance(x, ast.Name) for x in elts):
            return None
        return [x.id for x in elts]
    node = None
    for s in fn.body:
        if isinstance(s, ast.If) and names_of(s.test) is not None:
            node = s
            break
    if node is None:
        raise Untranslatable("no isinstance(%s, ..) chain in %s" % (var, fn.name))
    chain = []
    while True:
        chain.append((names_of(node.test), node.body))
        if len(node.orelse) == 1 and isinstance(node.orelse[0], ast.If) \
                and names_of(node.orelse[0].test) is not None:
            node = node.orelse[0]
        else:
            return chain, node.orelse


def _c07_raises(stmts, exc):
    return len(stmts) == 1 and isinstance(stmts[0], ast.Raise) and stmts[0].exc is not None \
        and isinstance(stmts[0].exc, ast.Call) and attr_chain(stmts[0].exc.func) == [exc]


def _c07_guard(stmt, what):
    """`if <test>: raise IndexError(..)` -> test"""
    if not (isinstance(stmt, ast.If) and not stmt.orelse and _c07_raises(stmt.body, "IndexError")):
        raise Untranslatable("%s: expected `if ..: raise IndexError(..)`" % what)
    return stmt.test


def _c07_assign_to(stmt, name, what):
    if not (isinstance(stmt, ast.Assign) and len(stmt.targets) == 1
            and isinstance(stmt.targets[0], ast.Name) and stmt.targets[0].id == name):
        raise Untranslatable("%s: expected an assignment to %s" % (what, name))
    return stmt.value


def _c07_np_array_singleton(v, name, what):
    if not (isinstance(v, ast.Call) and attr_chain(v.func) == ["np", "array"] and len(v.args) == 1
            and not v.keywords and isinstance(v.args[0], ast.List) and len(v.args[0].elts) == 1
            and isinstance(v.args[0].elts[0], ast.Name) and v.args[0].elts[0].id == name):
        raise Untranslatable("%s: expected np.array([%s])" % (what, name))


def _c07_arange1(v):
    """np.arange(<one arg>) -> the arg, else None"""
    if isinstance(v, ast.Call) and attr_chain(v.func) == ["np", "arange"] and len(v.args) == 1 \
            and not v.keywords:
        return v.args[0]
    return None


def _c07_kwargs(call, expand=None):
    out = []
    for k in call.keywords:
        if k.arg is None:
            if expand is None or not isinstance(k.value, ast.Name) or k.value.id not in expand:
                raise Untranslatable("cannot expand ** in call")
            out.extend(expand[k.value.id])
        else:
            out.append((k.arg, ast.unparse(k.value)))
    if call.args:
        raise Untranslatable("positional arguments in a keyword-only call site")
    return out


def _c07_calls(fn, name):
    return [n for n in ast.walk(fn) if isinstance(n, ast.Call) and attr_chain(n.func) == [name]]


@fragment("CorrTimes")
def frag_corrtimes(src):
    rel = "oqupy/system_dynamics.py"
    out = []
    I = {"times": "Int", "max_step": "Int", "index": "Int", "index_start": "Int",
         "index_end": "Int", "direction": "Int"}
    F = {"times": "Flt", "times_0": "Flt", "times_1": "Flt", "start_time": "Flt", "dt": "Flt",
         "max_step": "Int"}

    # ---- _parse_times ---------------------------------------------------
    fn = src.function(rel, "_parse_times")
    if [a.arg for a in fn.args.args] != ["times", "max_step", "dt", "start_time"]:
        raise Untranslatable("_parse_times: parameter list changed")
    chain, els = _c07_isinstance_chain(fn, "times")
    kinds = ["|".join(n) for n, _ in chain]
    if kinds != ["int", "slice|list", "float", "tuple"]:
        raise Untranslatable("_parse_times: branches are %s" % kinds)
    if not _c07_raises(els, "TypeError"):
        raise Untranslatable("_parse_times: the else branch does not raise TypeError")
    last = fn.body[-1]
    if not (isinstance(last, ast.Return) and isinstance(last.value, ast.Name)
            and last.value.id == "ret_times"):
        raise Untranslatable("_parse_times: does not end in `return ret_times`")
    out.append("/-- %s:%d  _parse_times: order of the isinstance tests -/\n"
               "def parse_branches : List String := %s\n" % (rel, fn.lineno, _c07_lstrs(kinds)))
    # int
    b = chain[0][1]
    if len(b) != 2:
        raise Untranslatable("_parse_times/int: unexpected statements")
    g = _c07_guard(b[0], "_parse_times/int")
    out.append(_c07_corr_def("int_out_of_bound", g, I, "Bool", ["times", "max_step"],
                         "%s:%d  int branch raises IndexError when: %s" % (rel, g.lineno, ast.unparse(g))))
    _c07_np_array_singleton(_c07_assign_to(b[1], "ret_times", "_parse_times/int"), "times", "_parse_times/int")
    # slice | list
    b = chain[1][1]
    if not (len(b) == 1 and isinstance(b[0], ast.Try) and len(b[0].body) == 1
            and len(b[0].handlers) == 1 and not b[0].orelse and not b[0].finalbody):
        raise Untranslatable("_parse_times/slice|list: expected one try/except")
    h = b[0].handlers[0]
    if not (h.type is not None and attr_chain(h.type) == ["Exception"] and _c07_raises(h.body, "IndexError")):
        raise Untranslatable("_parse_times/slice|list: handler is not `except Exception: raise IndexError`")
    v = _c07_assign_to(b[0].body[0], "ret_times", "_parse_times/slice|list")
    if not (isinstance(v, ast.Subscript) and _c07_arange1(v.value) is not None
            and isinstance(v.slice, ast.Name) and v.slice.id == "times"):
        raise Untranslatable("_parse_times/slice|list: expected np.arange(n)[times]")
    out.append(_c07_corr_def("index_base_len", _c07_arange1(v.value), I, "Int", ["max_step"],
                         "%s:%d  slice|list branch: ret_times = %s" % (rel, v.lineno, ast.unparse(v))))
    # float
    b = chain[2][1]
    if len(b) != 3:
        raise Untranslatable("_parse_times/float: unexpected statements")
    v = _c07_assign_to(b[0], "index", "_parse_times/float")
    out.append(_c07_corr_def("float_index", v, F, "Int", ["times", "start_time", "dt"],
                         "%s:%d  float branch: index = %s" % (rel, v.lineno, ast.unparse(v))))
    g = _c07_guard(b[1], "_parse_times/float")
    out.append(_c07_corr_def("float_out_of_bound", g, I, "Bool", ["index", "max_step"],
                         "%s:%d  float branch raises IndexError when: %s" % (rel, g.lineno, ast.unparse(g))))
    _c07_np_array_singleton(_c07_assign_to(b[2], "ret_times", "_parse_times/float"), "index", "_parse_times/float")
    # tuple (interval)
    b = [s for s in chain[3][1] if not isinstance(s, ast.Assert)]
    if len(b) != 6:
        raise Untranslatable("_parse_times/tuple: unexpected statements")
    v = _c07_assign_to(b[0], "index_start", "_parse_times/tuple")
    out.append(_c07_corr_def("interval_index_start", v, F, "Int", ["times_0", "start_time", "dt"],
                         "%s:%d  tuple branch: index_start = %s" % (rel, v.lineno, ast.unparse(v))))
    g = _c07_guard(b[1], "_parse_times/tuple")
    out.append(_c07_corr_def("interval_start_out_of_bound", g, I, "Bool", ["index_start", "max_step"],
                         "%s:%d  raises IndexError when: %s" % (rel, g.lineno, ast.unparse(g))))
    v = _c07_assign_to(b[2], "index_end", "_parse_times/tuple")
    out.append(_c07_corr_def("interval_index_end", v, F, "Int", ["times_1", "start_time", "dt"],
                         "%s:%d  tuple branch: index_end = %s" % (rel, v.lineno, ast.unparse(v))))
    g = _c07_guard(b[3], "_parse_times/tuple")
    out.append(_c07_corr_def("interval_end_out_of_bound", g, I, "Bool", ["index_end", "max_step"],
                         "%s:%d  raises IndexError when: %s" % (rel, g.lineno, ast.unparse(g))))
    v = _c07_assign_to(b[4], "direction", "_parse_times/tuple")
    out.append(_c07_corr_def("interval_direction", v, I, "Int", ["index_start", "index_end"],
                         "%s:%d  direction = %s" % (rel, v.lineno, ast.unparse(v))))
    v = _c07_assign_to(b[5], "ret_times", "_parse_times/tuple")
    abc_params = ["index_start", "index_end", "direction"]
    if isinstance(v, ast.Subscript) and _c07_arange1(v.value) is not None \
            and isinstance(v.slice, ast.Slice):
        parts = [v.slice.lower, v.slice.upper, v.slice.step]
        via_slice, base = True, _c07_arange1(v.value)
    elif isinstance(v, ast.Call) and attr_chain(v.func) == ["np", "arange"] and len(v.args) == 3 \
            and not v.keywords:
        parts, via_slice, base = list(v.args), False, None
    else:
        raise Untranslatable("_parse_times/tuple: ret_times is neither np.arange(n)[a:b:c] "
                             "nor np.arange(a, b, c)")
    if any(p is None for p in parts):
        raise Untranslatable("_parse_times/tuple: open-ended slice")
    doc = "%s:%d  tuple branch: ret_times = %s" % (rel, v.lineno, ast.unparse(v))
    out.append("/-- %s ;  true: a slice `[a:b:c]` of np.arange(interval_base_len), "
               "false: np.arange(a, b, c) -/\ndef interval_via_slice : Bool := %s\n"
               % (doc, "true" if via_slice else "false"))
    if base is not None:
        out.append(_c07_corr_def("interval_base_len", base, I, "Int", ["max_step"], doc))
    else:
        out.append("/-- unused: the interval is built by np.arange(a, b, c) -/\n"
                   "def interval_base_len (max_step : Int) : Int := (0 : Int)\n")
    for nm, p in zip("abc", parts):
        out.append(_c07_corr_def("interval_" + nm, p, I, "Int", abc_params, doc))

    # ---- compute_correlations_nt ----------------------------------------
    fn = src.function(rel, "compute_correlations_nt")
    # dt_ : which time step is used when `dt` is / is not given
    ifs = [n for n in ast.walk(fn) if isinstance(n, ast.If) and ast.unparse(n.test) == "dt is None"]
    if len(ifs) != 1:
        raise Untranslatable("compute_correlations_nt: expected one `if dt is None`")

    def dt_assign(stmts):
        hits = [s for s in stmts if isinstance(s, ast.Assign) and len(s.targets) == 1
                and isinstance(s.targets[0], ast.Name) and s.targets[0].id == "dt_"]
        if len(hits) != 1:
            raise Untranslatable("compute_correlations_nt: dt_ is not assigned once per branch")
        return ast.unparse(hits[0].value)
    if len(src.assignment(fn, "dt_")) != 2:
        raise Untranslatable("compute_correlations_nt: dt_ assigned elsewhere")
    out.append("/-- %s:%d  compute_correlations_nt: `dt_ = ..` when the argument dt is None / is given -/\n"
               "def dt_when_none : String := %s\ndef dt_when_given : String := %s\n"
               % (rel, ifs[0].lineno, _c07_lstr(dt_assign(ifs[0].body)), _c07_lstr(dt_assign(ifs[0].orelse))))
    hits = src.assignment(fn, "max_step")
    if len(hits) != 1:
        raise Untranslatable("compute_correlations_nt: max_step")
    out.append("/-- %s:%d -/\ndef max_step_source : String := %s\n"
               % (rel, hits[0].lineno, _c07_lstr(ast.unparse(hits[0].value))))
    pc = _c07_calls(fn, "_parse_times")
    if len(pc) != 1 or pc[0].keywords:
        raise Untranslatable("compute_correlations_nt: call of _parse_times")
    out.append("/-- %s:%d  positional arguments of the call of _parse_times(times, max_step, dt, start_time) -/\n"
               "def parse_call_args : List String := %s\n"
               % (rel, pc[0].lineno, _c07_lstrs([ast.unparse(a) for a in pc[0].args])))
    hits = src.assignment(fn, "times2")
    if len(hits) != 1:
        raise Untranslatable("compute_correlations_nt: times2")
    tr = _C07Tr({"start_time": "Flt", "dt_": "Flt", "dt": "Flt", "times": "Int"})
    t = tr.expr(hits[0].value)
    dtvars = [x for x in tr.free if x not in ("start_time", "times")]
    if len(dtvars) != 1 or t[1] != "Flt":
        raise Untranslatable("compute_correlations_nt: times2 = %s" % ast.unparse(hits[0].value))
    doc = "%s:%d  returned time axes: times2 = %s  (per element of `times`)" % (
        rel, hits[0].lineno, ast.unparse(hits[0].value))
    out.append(emit_def("ret_time", tr, t[0], "Flt", ["start_time", dtvars[0], "times"], doc))
    out.append("/-- the time-step variable that labels the returned axes -/\n"
               "def axes_dt_var : String := %s\n" % _c07_lstr(dtvars[0]))
    # keyword arguments reaching the dynamics
    hits = src.assignment(fn, "parameters")
    if len(hits) != 1 or not isinstance(hits[0].value, ast.Dict) or not all(
            isinstance(k, ast.Constant) and isinstance(k.value, str) for k in hits[0].value.keys):
        raise Untranslatable("compute_correlations_nt: parameters dict")
    pdict = [(k.value, ast.unparse(v)) for k, v in zip(hits[0].value.keys, hits[0].value.values)]
    oc = _c07_calls(fn, "_compute_ordered_nt_correlations")
    if len(oc) != 1:
        raise Untranslatable("compute_correlations_nt: call of _compute_ordered_nt_correlations")
    out.append("/-- %s:%d  keyword arguments (explicit, then the `parameters` dict) of the call of "
               "_compute_ordered_nt_correlations, with their source expressions -/\n"
               "def ordered_call_kwargs : List (String × String) := %s\n"
               % (rel, oc[0].lineno, _c07_lpairs(_c07_kwargs(oc[0], {"parameters": pdict}))))
    fo = src.function(rel, "_compute_ordered_nt_correlations")
    names = [a.arg for a in fo.args.args]
    defaults = dict(zip(names[len(names) - len(fo.args.defaults):],
                        [ast.unparse(d) for d in fo.args.defaults]))
    if "dt" not in names:
        raise Untranslatable("_compute_ordered_nt_correlations has no parameter dt")
    out.append("/-- %s:%d  default of parameter `dt` of _compute_ordered_nt_correlations "
               "(\"\" = no default) -/\ndef ordered_dt_default : String := %s\n"
               % (rel, fo.lineno, _c07_lstr(defaults.get("dt", ""))))
    # how the value of an entry is formed: the last operator contracted with the recorded states
    def last_operator(node, what):
        if ast.unparse(node) != "operators[-1]":
            raise Untranslatable("%s: the contracted operator is %s" % (what, ast.unparse(node)))

    def pairs_of_trace_matmul(fd, opname):
        """BaseDynamics.expectations: np.trace(<op> @ state) for state in self._states -> axis pairs
        (operator axis, state axis)"""
        loops = [n for n in ast.walk(fd) if isinstance(n, ast.For)
                 and ast.unparse(n.iter) == "self._states" and isinstance(n.target, ast.Name)]
        if len(loops) != 1 or len(loops[0].body) != 1:
            raise Untranslatable("BaseDynamics.expectations: loop over the states")
        st = loops[0].target.id
        body = ast.unparse(loops[0].body[0])
        src_op = [ast.unparse(h.value) for h in
                  Source.assignment(None, fd, "tmp_operator")] if False else \
            [ast.unparse(n.value) for n in ast.walk(fd) if isinstance(n, ast.Assign)
             and ast.unparse(n.targets[0]) == "tmp_operator"]
        if "np.array(%s, dtype=NpDtype)" % opname not in src_op:
            raise Untranslatable("BaseDynamics.expectations: tmp_operator = %s" % src_op)
        rets = [ast.unparse(n.value) for n in ast.walk(fd) if isinstance(n, ast.Return)]
        if "(times, expectations)" not in rets:
            raise Untranslatable("BaseDynamics.expectations: return value")
        if body == "expectations_list.append(np.trace(tmp_operator @ %s))" % st:
            return [(0, 1), (1, 0)], "np.trace(operator @ state)"     # sum_ij O[i,j] rho[j,i]
        if body == "expectations_list.append(np.trace(%s @ tmp_operator))" % st:
            return [(0, 1), (1, 0)], "np.trace(state @ operator)"
        raise Untranslatable("BaseDynamics.expectations: %s" % body)

    hits = src.assignment(fo, "corr")
    tup = [n for n in ast.walk(fo) if isinstance(n, ast.Assign) and isinstance(n.targets[0], ast.Tuple)
           and [ast.unparse(e) for e in n.targets[0].elts][-1:] == ["corr"]]
    if len(hits) + len(tup) != 1:
        raise Untranslatable("_compute_ordered_nt_correlations: corr")
    if tup:
        v = tup[0].value
        if not (isinstance(v, ast.Call) and ast.unparse(v.func) == "dynamics.expectations"
                and len(v.args) == 1 and not v.keywords and len(tup[0].targets[0].elts) == 2):
            raise Untranslatable("_compute_ordered_nt_correlations: corr = %s" % ast.unparse(v))
        last_operator(v.args[0], "_compute_ordered_nt_correlations")
        fd = src.function("oqupy/dynamics.py", "BaseDynamics.expectations")
        if [a.arg for a in fd.args.args][:2] != ["self", "operator"]:
            raise Untranslatable("BaseDynamics.expectations: parameters")
        pairs, form = pairs_of_trace_matmul(fd, "operator")
        where = "dynamics.expectations(operators[-1]) -> oqupy/dynamics.py:%d %s" % (fd.lineno, form)
    else:
        v = hits[0].value
        fname = attr_chain(v.func) if isinstance(v, ast.Call) else None
        if fname == ["np", "tensordot"] and len(v.args) == 2 and [k.arg for k in v.keywords] == ["axes"]:
            names = [ast.unparse(a) for a in v.args]
            try:
                ax = ast.literal_eval(v.keywords[0].value)
                ax = ([int(x) for x in ax[0]], [int(x) for x in ax[1]])
            except Exception:
                raise Untranslatable("_compute_ordered_nt_correlations: tensordot axes")
            if names[0] == "dynamics.states":
                last_operator(v.args[1], "tensordot")
                st_ax, op_ax = ax
            elif names[1] == "dynamics.states":
                last_operator(v.args[0], "tensordot")
                op_ax, st_ax = ax
            else:
                raise Untranslatable("_compute_ordered_nt_correlations: tensordot operands %s" % names)
            if len(st_ax) != 2 or len(op_ax) != 2 or sorted(st_ax) != [1, 2] or sorted(op_ax) != [0, 1]:
                raise Untranslatable("_compute_ordered_nt_correlations: tensordot axes %r" % (ax,))
            pairs = [(o, s_ - 1) for o, s_ in zip(op_ax, st_ax)]      # states carry the time axis 0
            where = ast.unparse(v)
        elif fname == ["np", "einsum"] and len(v.args) == 3 and isinstance(v.args[0], ast.Constant) \
                and not v.keywords:
            spec = v.args[0].value.replace(" ", "")
            ins, _, outp = spec.partition("->")
            sub = ins.split(",")
            names = [ast.unparse(a) for a in v.args[1:]]
            if "dynamics.states" not in names or len(sub) != 2:
                raise Untranslatable("_compute_ordered_nt_correlations: einsum operands")
            si = names.index("dynamics.states")
            last_operator(v.args[1 + (1 - si)], "einsum")
            ss, os_ = sub[si], sub[1 - si]
            if len(ss) != 3 or len(os_) != 2 or outp != ss[0] or len(set(ss)) != 3 \
                    or sorted(os_) != sorted(ss[1:]):
                raise Untranslatable("_compute_ordered_nt_correlations: einsum %r" % spec)
            pairs = [(k, ss.index(ch) - 1) for k, ch in enumerate(os_)]
            where = ast.unparse(v)
        else:
            raise Untranslatable("_compute_ordered_nt_correlations: corr = %s" % ast.unparse(v))
    pairs = sorted(pairs)
    out.append("/-- %s:%d  value of an entry: the last operator `operators[-1]` contracted with every "
               "recorded state, via  %s ;  pairs (axis of the operator, axis of the state) that are "
               "summed over -/\ndef final_value_pairs : List (Nat × Nat) := [%s]\n"
               % (rel, (tup or hits)[0].lineno, where.replace("-/", "- /"),
                  ", ".join("(%d, %d)" % p for p in pairs)))
    sel = [ast.unparse(h.value) for h in src.assignment(fo, "ret_correlations")]
    sup = sorted(set(ast.unparse(n) for n in ast.walk(fo) if isinstance(n, ast.Call)
                     and attr_chain(n.func) in (["left_super"], ["right_super"],
                                                ["control", "add_single"])))
    tests = [ast.unparse(n.test) for n in ast.walk(fo) if isinstance(n, ast.If)]
    out.append("/-- which of the values are returned, and how the earlier operators enter -/\n"
               "def final_value_selection : List String := %s\n"
               "def earlier_operator_insertion : List String := %s\n"
               % (_c07_lstrs(sel), _c07_lstrs(tests + sup)))
    dc = _c07_calls(fo, "compute_dynamics")
    if len(dc) != 1:
        raise Untranslatable("_compute_ordered_nt_correlations: call of compute_dynamics")
    out.append("/-- %s:%d  keyword arguments of the call of compute_dynamics -/\n"
               "def dynamics_call_kwargs : List (String × String) := %s\n"
               % (rel, dc[0].lineno, _c07_lpairs(_c07_kwargs(dc[0]))))
    # the time-ordering test on the earlier times
    conts = [n for n in ast.walk(fn) if isinstance(n, ast.If) and len(n.body) == 1
             and isinstance(n.body[0], ast.Continue)]
    tests = [ast.unparse(n.test) for n in conts]
    ft_src = [ast.unparse(h.value) for h in src.assignment(fn, "ft")]
    ck_src = [ast.unparse(h.value) for h in src.assignment(fn, "check")]
    if ck_src != ["sorted(first_times)"]:
        raise Untranslatable("compute_correlations_nt: check = %s" % ck_src)
    if "not np.allclose(ft, check)" in tests and ft_src == ["np.array(first_times)"]:
        order_check = "allclose"
    elif "list(first_times) != check" in tests:
        order_check = "exact"
    else:
        raise Untranslatable("compute_correlations_nt: time-ordering test %s" % tests)
    out.append("/-- how `first_times` is compared with `sorted(first_times)`: "
               "\"allclose\" (np.allclose, rtol 1e-5, atol 1e-8) or \"exact\" -/\n"
               "def order_check : String := %s\n" % _c07_lstr(order_check))
    hits = src.assignment(fn, "ft_max")
    if [ast.unparse(h.value) for h in hits] != ["ft.max()"] or ft_src != ["np.array(first_times)"]:
        raise Untranslatable("compute_correlations_nt: ft_max")
    # which later times are kept, and which result indices they are written to
    trig = [n for n in ast.walk(fn) if isinstance(n, ast.If) and isinstance(n.test, ast.Call)
            and isinstance(n.test.func, ast.Attribute) and n.test.func.attr == "any"
            and isinstance(n.test.func.value, ast.Compare)]
    if len(trig) != 1:
        raise Untranslatable("compute_correlations_nt: `if (<cmp>).any():`")
    LT = {"last_times": "Int", "ft_max": "Int"}
    cmp_ = trig[0].test.func.value
    out.append(_c07_corr_def("last_drop_trigger", cmp_, LT, "Bool", ["ft_max", "last_times"],
                         "%s:%d  later times are filtered when any of them satisfies: %s"
                         % (rel, cmp_.lineno, ast.unparse(cmp_))))
    body = trig[0].body
    local = {}
    for s in body:
        if isinstance(s, ast.Assign) and len(s.targets) == 1 and isinstance(s.targets[0], ast.Name):
            local[s.targets[0].id] = s.value
    lt = local.get("lt")
    if not (isinstance(lt, ast.Subscript) and isinstance(lt.value, ast.Name)
            and lt.value.id == "last_times"):
        raise Untranslatable("compute_correlations_nt: lt = last_times[..]")
    mask = lt.slice
    mask_name = None
    if isinstance(mask, ast.Name) and isinstance(local.get(mask.id), ast.Compare):
        mask_name, mask = mask.id, local[mask.id]
    if not isinstance(mask, ast.Compare):
        raise Untranslatable("compute_correlations_nt: lt is not selected by a comparison mask")
    out.append(_c07_corr_def("last_keep", mask, LT, "Bool", ["ft_max", "last_times"],
                         "%s:%d  the later times kept: %s" % (rel, mask.lineno, ast.unparse(mask))))
    inds = local.get("inds")
    if not (isinstance(inds, ast.Subscript) and ast.unparse(inds.value) == "sch_indices[i][-1]"):
        raise Untranslatable("compute_correlations_nt: inds = sch_indices[i][-1][..]")
    sel = inds.slice
    if isinstance(sel, ast.Slice) and sel.upper is None and sel.step is None \
            and sel.lower is not None and ast.unparse(sel.lower) == "-len(lt)":
        by_mask = False
    elif (mask_name is not None and isinstance(sel, ast.Name) and sel.id == mask_name) \
            or (isinstance(sel, ast.Compare) and ast.dump(sel) == ast.dump(mask)):
        by_mask = True
    else:
        raise Untranslatable("compute_correlations_nt: inds = %s" % ast.unparse(inds))
    srcs = [ast.unparse(local.get(k)) if k in local else None for k in ("last_times",)]
    if srcs != ["lt"] or ast.unparse(body[-1]) != "sch_indices[i][-1] = inds":
        raise Untranslatable("compute_correlations_nt: filter block changed")
    out.append("/-- %s:%d  inds = %s ;  true: the result indices of the kept later times are "
               "selected by the same mask, false: the trailing len(lt) indices -/\n"
               "def last_index_by_mask : Bool := %s\n"
               % (rel, inds.lineno, ast.unparse(inds), "true" if by_mask else "false"))
    wb = [n for n in ast.walk(fn) if isinstance(n, ast.Assign)
          and ast.unparse(n.targets[0]) == "ret_correlations[sch_indices[i]]"]
    if len(wb) != 1 or ast.unparse(wb[0].value) != "corr":
        raise Untranslatable("compute_correlations_nt: write-back")

    # ---- _schedule_nt_correlations ---------------------------------------
    fs = src.function(rel, "_schedule_nt_correlations")
    want = {"indices": "[np.arange(len(op_time)) for op_time in ops_times]",
            "sched_ind": "list(product(*indices[0:-1]))",
            "sched": "list(product(*ops_times[0:-1]))"}
    for k, w in want.items():
        got = [ast.unparse(h.value) for h in src.assignment(fs, k)]
        if got != [w]:
            raise Untranslatable("_schedule_nt_correlations: %s = %s" % (k, got))
    apps = sorted(ast.unparse(n) for n in ast.walk(fs) if isinstance(n, ast.Call)
                  and isinstance(n.func, ast.Attribute) and n.func.attr == "append")
    if apps != ["sched[i].append(ops_times[-1])", "sched_ind[i].append(indices[-1])"]:
        raise Untranslatable("_schedule_nt_correlations: appended items %s" % apps)
    out.append("/-- %s:%d  _schedule_nt_correlations has the shape the model assumes: two parallel "
               "itertools.product over all but the last operator (times / arange indices), the last "
               "operator's whole time array and index array appended to every entry -/\n"
               "def schedule_shape_ok : Bool := true\n" % (rel, fs.lineno))

    # ---- compute_correlations (two-time wrapper) -------------------------
    fc = src.function(rel, "compute_correlations")
    tabs = {}
    for s in fc.body:
        if isinstance(s, ast.If) and isinstance(s.test, ast.Compare) \
                and ast.unparse(s.test.left) == "time_order" \
                and isinstance(s.test.comparators[0], ast.Constant):
            mode = s.test.comparators[0].value
            for a in s.body:
                if isinstance(a, ast.Assign) and isinstance(a.targets[0], ast.Name) \
                        and isinstance(a.value, ast.List):
                    tabs[(mode, a.targets[0].id)] = [
                        e.value if isinstance(e, ast.Constant) else ast.unparse(e)
                        for e in a.value.elts]
                elif isinstance(a, ast.Assign) and ast.unparse(a.targets[0]) == "corr":
                    tabs[(mode, "post")] = ast.unparse(a.value)
    for mode in ("ordered", "anti"):
        for k in ("ops_order", "operators", "ops_times"):
            if (mode, k) not in tabs:
                raise Untranslatable("compute_correlations: %s/%s" % (mode, k))
            out.append("/-- %s  compute_correlations, time_order == %r: %s -/\n"
                       "def %s_%s : List String := %s\n"
                       % (rel, mode, k, mode, k, _c07_lstrs(tabs[(mode, k)])))
    if ("anti", "post") not in tabs or ("ordered", "post") in tabs:
        raise Untranslatable("compute_correlations: post-processing")
    out.append("/-- %s  compute_correlations, time_order == 'anti': corr = .. applied to the result "
               "(times list, array) of compute_correlations_nt -/\n"
               "def anti_post : String := %s\n" % (rel, _c07_lstr(tabs[("anti", "post")])))
    nc = _c07_calls(fc, "compute_correlations_nt")
    if len(nc) != 1:
        raise Untranslatable("compute_correlations: call of compute_correlations_nt")
    out.append("/-- %s:%d  keyword arguments of the call of compute_correlations_nt -/\n"
               "def nt_call_kwargs : List (String × String) := %s\n"
               % (rel, nc[0].lineno, _c07_lpairs(_c07_kwargs(nc[0]))))
    return "\n".join(out)


# ---------------------------------------------------------------------------
# LoopOrder  (C14):  order of the state-changing statements inside the backend
# step / compute methods, as lists of micro-op tags, and the loop conditions of
# the compute() methods with a fixed end.
#
# Grammar understood by the order extractor (anything else -> Untranslatable):
#   statements : docstring | assignment | augmented assignment of the step
#                counter | expression statement (a call) | return | if/elif/else
#                (forks into paths) | for (body may only mutate the network) |
#                try/except <class>: <restore_*(...) calls>; raise   (the class is recorded)
#   calls      : classified by the tables of the `OrderSpec` of the class:
#                user callables (attributes that hold user-supplied functions),
#                mutating methods / methods of the tensor-network attributes,
#                control application, result recording, and a whitelist of pure
#                functions.  An unknown call is an error.
#   step values: `self._step`, `self.step`, locals bound to them, +/- integer
#                constants, `int(..)`, `0 - x`  (affine forms a*entry + b).
# ---------------------------------------------------------------------------

LOOPORDER_PRELUDE = """/-- `a * entry + b`: a step value relative to the step counter at entry of the method -/
structure Aff where
  a : Int
  b : Int
deriving DecidableEq, Repr

def Aff.eval (x : Aff) (entry : Int) : Int := x.a * entry + x.b

/-- Micro-operations of a backend step, in source order. -/
inductive MicroOp where
  /-- the step counter is assigned (`self._step += 1` is `setStep ⟨1, 1⟩`) -/
  | setStep (v : Aff)
  /-- the step counter is set to the configured start step (`self._step = self._start_step`) -/
  | initStep
  /-- user-supplied callable number `i` is invoked with step argument `v` (may raise) -/
  | callUser (i : Nat) (v : Aff)
  /-- the persistent tensor network is changed in place; `v` is the step argument of the call
      (or the value of the step counter at that point if the call has none) -/
  | mutate (v : Aff)
  /-- the persistent tensor network is (re)built from the supplied initial data -/
  | loadNet
  /-- control operations registered for step `v` are applied (`post` = after the measurement) -/
  | control (post : Bool) (v : Aff)
  /-- an attribute of the object other than the counter / the network is assigned -/
  | store
  /-- a result is appended to the recorded results -/
  | record
  /-- the result containers are (re)created empty -/
  | initResults
  /-- start / end of a `try` block whose handler restores the tensor networks saved
      immediately before the block and re-raises; `catchAll` = the handler catches every
      `BaseException` (`except BaseException:` or a bare `except:`), `false` for a narrower
      class such as `except Exception:`; `exact` = what is saved are full copies of every
      network attribute the step changes and the handler puts exactly these copies back (no
      reconstruction from partial information such as a length) -/
  | tryBegin (catchAll : Bool) (exact : Bool)
  | tryEnd
  /-- the temporary traces of the chain state are (re)computed / read / discarded -/
  | traceCompute
  | traceRead
  | traceClear
deriving DecidableEq, Repr

"""


class Aff:
    def __init__(self, a, b):
        self.a, self.b = a, b

    def lean(self):
        return "⟨%d, %d⟩" % (self.a, self.b)

    def key(self):
        return (self.a, self.b)


class OrderSpec:
    def __init__(self, user=None, user_lists=None, net=(), mut_methods=(), step_arg_methods=(),
                 backend_lists=(), control_methods=(), record_methods=(), record_attrs=(),
                 init_results_methods=(), pure=(), pure_methods=(), start_attr=None,
                 net_constructors=(), trace_compute=(), trace_clear=(), trace_read=(),
                 record_local_methods=(), user_noarg=None, inline=None):
        self.user = user or {}                # self.<attr>(...)  -> callUser id
        self.user_lists = user_lists or {}    # for f in self.<attr>: f(...) -> callUser id
        self.net = set(net)                   # attributes holding the persistent tensor network
        self.mut_methods = set(mut_methods)   # self.<m>(...) / backend.<m>(...) mutating the network
        self.step_arg_methods = set(step_arg_methods)   # ... whose 1st argument is a step value
        self.backend_lists = set(backend_lists)         # self.<attr>: list of sub-backends
        self.control_methods = set(control_methods)
        self.record_methods = set(record_methods)
        self.record_attrs = set(record_attrs)           # self.<attr>.append(...) records a result
        self.init_results_methods = set(init_results_methods)
        self.pure = set(pure)                 # dotted names of pure functions
        self.pure_methods = set(pure_methods)  # method names that are pure on any receiver
        self.start_attr = start_attr
        self.net_constructors = set(net_constructors)   # classes whose instance is a fresh network
        # methods (of self or of a network attribute) that compute / discard / read the
        # temporary traces; `<local>.<m>(..)` with m in record_local_methods records a result
        self.trace_compute = set(trace_compute)
        self.trace_clear = set(trace_clear)
        self.trace_read = set(trace_read)
        self.record_local_methods = set(record_local_methods)
        # self.<attr>(..) -> callUser id whose argument is not a step value (emitted as ⟨0, 0⟩)
        self.user_noarg = user_noarg or {}
        # self.<m>(step, ..) / backend.<m>(step, ..) whose own micro-op list (relative to its
        # first argument) is spliced in instead of one atomic `mutate`
        self.inline = inline or {}


PURE_COMMON = {"int", "len", "range", "bool", "zip", "copy", "deepcopy", "reversed", "list",
               "np.dot", "np.array", "swapaxes", "expand_dims", "na.NodeArray", "na.split",
               "na.join", "util.add_singleton", "util.create_delta", "create_delta"}
PURE_METHODS_COMMON = {"sum", "copy", "readout", "reshape"}


class _Path:
    def __init__(self, ops=None, env=None, cur=None, done=False, bound=None):
        self.ops = list(ops or [])
        self.env = dict(env or {})
        self.cur = cur                       # Aff of the step counter now (None = unknown)
        self.done = done
        self.bound = dict(bound or {})       # local name -> ("user", id) | ("backend",)
        self.locals = set()

    def clone(self):
        q = _Path(self.ops, self.env, self.cur, self.done, self.bound)
        q.locals = set(self.locals)
        return q

    def key(self):
        return (tuple(self.ops), tuple(sorted((k, v.key()) for k, v in self.env.items())),
                self.cur.key() if self.cur else None, self.done,
                tuple(sorted(self.bound.items())))


class OrderExtractor:
    def __init__(self, spec, where):
        self.spec = spec
        self.where = where

    def fail(self, node, msg):
        raise Untranslatable("%s:%s: %s" % (self.where, getattr(node, "lineno", "?"), msg))

    # -- step values -----------------------------------------------------
    def aff(self, e, p):
        """affine value of an expression in terms of the entry counter, or None"""
        if isinstance(e, ast.Constant) and isinstance(e.value, int) and not isinstance(e.value, bool):
            return Aff(0, e.value)
        if isinstance(e, ast.Name):
            return p.env.get(e.id)
        if isinstance(e, ast.Attribute):
            ch = attr_chain(e)
            if ch in (["self", "_step"], ["self", "step"]):
                return p.cur
            return None
        if isinstance(e, ast.Call) and attr_chain(e.func) == ["int"] and len(e.args) == 1:
            return self.aff(e.args[0], p)
        if isinstance(e, ast.UnaryOp) and isinstance(e.op, ast.USub):
            x = self.aff(e.operand, p)
            return Aff(-x.a, -x.b) if x else None
        if isinstance(e, ast.BinOp) and isinstance(e.op, (ast.Add, ast.Sub)):
            x, y = self.aff(e.left, p), self.aff(e.right, p)
            if x is None or y is None:
                return None
            s = 1 if isinstance(e.op, ast.Add) else -1
            return Aff(x.a + s * y.a, x.b + s * y.b)
        return None

    def step_arg(self, call, p):
        """the step argument of a call: keyword `step=` or the first positional argument"""
        for kw in call.keywords:
            if kw.arg in ("step", "current_step"):
                return self.aff(kw.value, p)
        if call.args and not isinstance(call.args[0], ast.Starred):
            return self.aff(call.args[0], p)
        return None

    # -- expressions -----------------------------------------------------
    def expr_ops(self, e, p):
        """append the micro-ops caused by evaluating `e` (in evaluation order) to path p"""
        sp = self.spec
        if e is None or isinstance(e, (ast.Constant, ast.Name)):
            return
        if isinstance(e, ast.Attribute):
            return self.expr_ops(e.value, p)
        if isinstance(e, ast.Starred):
            return self.expr_ops(e.value, p)
        if isinstance(e, (ast.Tuple, ast.List)):
            for x in e.elts:
                self.expr_ops(x, p)
            return
        if isinstance(e, ast.Dict):
            for x in list(e.keys) + list(e.values):
                self.expr_ops(x, p)
            return
        if isinstance(e, ast.Subscript):
            self.expr_ops(e.value, p)
            return self.expr_ops(e.slice, p)
        if isinstance(e, ast.Slice):
            for x in (e.lower, e.upper, e.step):
                self.expr_ops(x, p)
            return
        if isinstance(e, (ast.BinOp,)):
            self.expr_ops(e.left, p)
            return self.expr_ops(e.right, p)
        if isinstance(e, ast.UnaryOp):
            return self.expr_ops(e.operand, p)
        if isinstance(e, ast.Compare):
            self.expr_ops(e.left, p)
            for x in e.comparators:
                self.expr_ops(x, p)
            return
        if isinstance(e, ast.BoolOp):
            n0 = len(p.ops)
            for x in e.values:
                self.expr_ops(x, p)
            if len(p.ops) != n0:
                self.fail(e, "state-changing call inside and/or")
            return
        if isinstance(e, ast.ListComp):
            if len(e.generators) != 1 or e.generators[0].ifs:
                self.fail(e, "comprehension shape")
            g = e.generators[0]
            self.expr_ops(g.iter, p)
            saved = dict(p.bound)
            self.bind_loop(g.target, g.iter, p)
            # the element expression is evaluated once per item: emitted once
            self.expr_ops(e.elt, p)
            p.bound = saved
            return
        if isinstance(e, ast.JoinedStr):
            for x in e.values:
                self.expr_ops(x, p)
            return
        if isinstance(e, ast.FormattedValue):
            return self.expr_ops(e.value, p)
        if isinstance(e, ast.Call):
            return self.call_ops(e, p)
        self.fail(e, "expression " + type(e).__name__)

    def bind_loop(self, target, it, p):
        """for <target> in zip(self.a, self.b) / in self.a : remember what the names hold"""
        sp = self.spec
        names = [target] if isinstance(target, ast.Name) else \
            (list(target.elts) if isinstance(target, ast.Tuple) else None)
        if names is None or not all(isinstance(n, ast.Name) for n in names):
            self.fail(target, "loop target")
        if isinstance(it, ast.Call) and attr_chain(it.func) == ["zip"]:
            srcs = it.args
        else:
            srcs = [it]
        if len(srcs) != len(names):
            # e.g. `for x in <expr>` with a tuple target: nothing to bind
            srcs = [None] * len(names)
        for n, s in zip(names, srcs):
            p.bound.pop(n.id, None)
            p.env.pop(n.id, None)
            ch = attr_chain(s) if s is not None else None
            if ch and len(ch) == 2 and ch[0] == "self":
                if ch[1] in sp.user_lists:
                    p.bound[n.id] = ("user", sp.user_lists[ch[1]])
                elif ch[1] in sp.backend_lists:
                    p.bound[n.id] = ("backend", 0)

    def call_ops(self, e, p):
        sp = self.spec
        ch = attr_chain(e.func)
        # receiver expression that is itself a call, e.g.  self._mps.pop(0).sum(1)
        if ch is None:
            if isinstance(e.func, ast.Attribute):
                self.expr_ops(e.func.value, p)
                for a in e.args:
                    self.expr_ops(a, p)
                for kw in e.keywords:
                    self.expr_ops(kw.value, p)
                if e.func.attr in sp.pure_methods or e.func.attr in ("items", "keys", "values"):
                    return
                # self.<record attr>[..].append(..)
                base = e.func.value
                if e.func.attr == "append" and isinstance(base, ast.Subscript):
                    bch = attr_chain(base.value)
                    if bch and len(bch) == 2 and bch[0] == "self" and bch[1] in sp.record_attrs:
                        p.ops.append(("record",))
                        return
            self.fail(e, "call of " + ast.unparse(e.func)[:60])
        for a in e.args:
            self.expr_ops(a, p)
        for kw in e.keywords:
            self.expr_ops(kw.value, p)
        name = ".".join(ch)

        def need(v, what):
            if v is None:
                self.fail(e, "step argument of %s is not an affine step value" % what)
            return v
        # user callables
        if len(ch) == 2 and ch[0] == "self" and ch[1] in sp.user_noarg:
            p.ops.append(("callUser", sp.user_noarg[ch[1]], (0, 0)))
            return
        if ((len(ch) == 2 and ch[0] == "self") or
                (len(ch) == 2 and p.bound.get(ch[0], (None,))[0] == "backend")) \
                and ch[1] in sp.inline:
            x = need(self.step_arg(e, p), name)
            if x.a != 1:
                self.fail(e, "inlined call with a non-unit step argument")
            for o in sp.inline[ch[1]]:
                if o[0] == "mutate":
                    p.ops.append(("mutate", (o[1][0], o[1][1] + x.b) if o[1][0] == 1 else o[1]))
                elif o[0] == "callUser":
                    p.ops.append(o)
                else:
                    self.fail(e, "inlined method does more than call user code and mutate")
            return
        if len(ch) == 2 and ch[0] == "self" and ch[1] in sp.user:
            p.ops.append(("callUser", sp.user[ch[1]], need(self.step_arg(e, p), name).key()))
            return
        if len(ch) == 1 and p.bound.get(ch[0], (None,))[0] == "user":
            p.ops.append(("callUser", p.bound[ch[0]][1], need(self.step_arg(e, p), name).key()))
            return
        # temporary traces
        tm = ch[-1] if (len(ch) == 2 and ch[0] == "self") or \
            (len(ch) == 3 and ch[0] == "self" and ch[1] in sp.net) else None
        if tm in sp.trace_compute:
            p.ops.append(("traceCompute",))
            return
        if tm in sp.trace_clear:
            p.ops.append(("traceClear",))
            return
        if tm in sp.trace_read:
            p.ops.append(("traceRead",))
            return
        # methods of plain local objects
        if len(ch) == 2 and ch[0] != "self" and \
                p.bound.get(ch[0], ("netalias",))[0] == "netalias" \
                and ch[0] not in ("np", "na", "util", "tn"):
            if ch[1] in sp.record_local_methods:
                p.ops.append(("record",))
                return
            if ch[1] in ("append", "items"):
                return
            if p.bound.get(ch[0], (None,))[0] == "netalias":
                p.ops.append(("mutate", need(p.cur, "the step counter").key()))
                return
            if ch[0] in p.locals:                # method of a local object (a copy): no effect
                return
        # mutation of the persistent tensor network
        is_self_m = len(ch) == 2 and ch[0] == "self"
        is_backend_m = len(ch) == 2 and p.bound.get(ch[0], (None,))[0] == "backend"
        if (is_self_m or is_backend_m) and ch[1] in sp.mut_methods:
            v = need(self.step_arg(e, p), name) if ch[1] in sp.step_arg_methods \
                else need(p.cur, "the step counter")
            p.ops.append(("mutate", v.key()))
            return
        if len(ch) == 3 and ch[0] == "self" and ch[1] in sp.net:
            if ch[2] in sp.pure_methods:
                return
            v = need(self.step_arg(e, p), name) if ch[2] in sp.step_arg_methods \
                else need(p.cur, "the step counter")
            p.ops.append(("mutate", v.key()))
            return
        if is_self_m and ch[1] in sp.control_methods:
            post = [kw.value for kw in e.keywords if kw.arg == "post"]
            if len(post) != 1 or not isinstance(post[0], ast.Constant) \
                    or not isinstance(post[0].value, bool):
                self.fail(e, "control call without constant post=")
            p.ops.append(("control", post[0].value, need(self.step_arg(e, p), name).key()))
            return
        if is_self_m and ch[1] in sp.record_methods:
            p.ops.append(("record",))
            return
        if is_self_m and ch[1] in sp.init_results_methods:
            p.ops.append(("initResults",))
            return
        if len(ch) == 3 and ch[0] == "self" and ch[1] in sp.record_attrs and ch[2] == "append":
            p.ops.append(("record",))
            return
        if name in sp.pure or (len(ch) >= 2 and ch[-1] in sp.pure_methods):
            return
        self.fail(e, "unknown call " + name)

    # -- statements ------------------------------------------------------
    def assign_target(self, t, value, p, node):
        sp = self.spec
        if isinstance(t, ast.Name):
            p.bound.pop(t.id, None)
            p.locals.add(t.id)
            vch = attr_chain(value) if value is not None else None
            if vch and len(vch) == 2 and vch[0] == "self" and vch[1] in sp.net:
                p.bound[t.id] = ("netalias", 0)      # the persistent network itself, not a copy
            v = self.aff(value, p) if value is not None else None
            if v is not None:
                p.env[t.id] = v
            else:
                p.env.pop(t.id, None)
            return
        if isinstance(t, (ast.Tuple, ast.List)):
            for x in t.elts:
                self.assign_target(x, None, p, node)
            return
        if isinstance(t, ast.Subscript):
            base = attr_chain(t.value)
            if base and len(base) == 2 and base[0] == "self" and base[1] in sp.net:
                if p.cur is None:
                    self.fail(node, "network changed while the step counter is unknown")
                p.ops.append(("mutate", p.cur.key()))
                return
            if base and len(base) == 1:          # item of a local container
                return
            self.fail(node, "assignment to " + ast.unparse(t))
        if isinstance(t, ast.Attribute):
            ch = attr_chain(t)
            if ch and len(ch) == 2 and ch[0] in p.locals and ch[0] not in p.bound:
                return                          # attribute of a local object (a copy)
            if not ch or len(ch) != 2 or ch[0] != "self":
                self.fail(node, "assignment to " + ast.unparse(t))
            if ch[1] == "_step":
                v = self.aff(value, p) if value is not None else None
                if v is not None:
                    p.ops.append(("setStep", v.key()))
                    p.cur = v
                    return
                vch = attr_chain(value) if value is not None else None
                if sp.start_attr and vch == ["self", sp.start_attr]:
                    p.ops.append(("initStep",))
                    p.cur = Aff(1, 0)          # entry is re-based to the start step
                    return
                self.fail(node, "step counter assigned a non-affine value")
            if ch[1] in sp.net:
                if isinstance(value, ast.Call) and attr_chain(value.func) \
                        and ".".join(attr_chain(value.func)) in sp.net_constructors:
                    p.ops.append(("loadNet",))
                elif p.cur is None:
                    self.fail(node, "network changed while the step counter is unknown")
                else:
                    p.ops.append(("mutate", p.cur.key()))
                return
            p.ops.append(("store",))
            return
        self.fail(node, "assignment target " + type(t).__name__)

    def stmts(self, body, paths):
        for s in body:
            live = [p for p in paths if not p.done]
            dead = [p for p in paths if p.done]
            if not live:
                break
            paths = dead + self.stmt(s, live)
            uniq = {}
            for p in paths:
                uniq.setdefault(p.key(), p)
            paths = list(uniq.values())
        return paths

    def stmt(self, s, paths):
        sp = self.spec
        if isinstance(s, ast.Expr):
            if isinstance(s.value, ast.Constant):
                return paths
            for p in paths:
                self.expr_ops(s.value, p)
            return paths
        if isinstance(s, ast.Pass):
            return paths
        if isinstance(s, ast.Assert):
            for p in paths:
                n0 = len(p.ops)
                self.expr_ops(s.test, p)
                if len(p.ops) != n0:
                    self.fail(s, "state-changing call in assert")
            return paths
        if isinstance(s, ast.Assign):
            for p in paths:
                self.expr_ops(s.value, p)
                for t in s.targets:
                    self.assign_target(t, s.value, p, s)
            return paths
        if isinstance(s, ast.AugAssign):
            for p in paths:
                self.expr_ops(s.value, p)
                ch = attr_chain(s.target)
                if ch == ["self", "_step"] and isinstance(s.op, (ast.Add, ast.Sub)):
                    fake = ast.BinOp(left=s.target, op=s.op, right=s.value)
                    self.assign_target(s.target, fake, p, s)
                else:
                    self.fail(s, "augmented assignment to " + ast.unparse(s.target))
            return paths
        if isinstance(s, ast.Return):
            for p in paths:
                n0 = len(p.ops)
                self.expr_ops(s.value, p)
                if any(o != ("traceRead",) for o in p.ops[n0:]):
                    self.fail(s, "state-changing call in return expression")
                p.done = True
            return paths
        if isinstance(s, ast.If):
            out = []
            for p in paths:
                n0 = len(p.ops)
                self.expr_ops(s.test, p)
                if len(p.ops) != n0:
                    self.fail(s, "state-changing call in if-test")
                out += self.stmts(s.body, [p.clone()])
                out += self.stmts(s.orelse, [p.clone()])
            return out
        if isinstance(s, ast.For):
            out = []
            for p in paths:
                self.expr_ops(s.iter, p)
                q = p.clone()
                q.ops = []
                self.bind_loop(s.target, s.iter, q)
                res = self.stmts(s.body, [q])
                if len(res) != 1 or res[0].done or s.orelse:
                    self.fail(s, "for-loop with branching body")
                body_ops = res[0].ops
                if any(o[0] not in ("mutate", "traceRead", "record") for o in body_ops) or \
                        (res[0].cur.key() if res[0].cur else None) != (p.cur.key() if p.cur else None):
                    self.fail(s, "for-loop body does more than mutate the network / record")
                # zero or more iterations: recorded once
                p.ops += body_ops
                out.append(p)
            return out
        if isinstance(s, ast.Try):
            if len(s.handlers) != 1 or s.orelse or s.finalbody:
                self.fail(s, "try shape")
            h = s.handlers[0]
            if h.type is None:
                catch_all = True                       # bare `except:`
            elif isinstance(h.type, ast.Name):
                catch_all = h.type.id == "BaseException"
            else:
                self.fail(s, "handler class is not a plain name")
            if not h.body or not (isinstance(h.body[-1], ast.Raise) and h.body[-1].exc is None):
                self.fail(s, "handler does not re-raise")
            restores = 0
            for n in ast.walk(ast.Module(body=h.body[:-1], type_ignores=[])):
                if isinstance(n, ast.Call):
                    chn = attr_chain(n.func)
                    if chn and chn[-1].startswith("restore_"):
                        restores += 1
                    elif chn and ".".join(chn) in ("zip",):
                        pass
                    else:
                        self.fail(s, "handler calls " + ast.unparse(n.func))
                if isinstance(n, (ast.Assign, ast.AugAssign)):
                    self.fail(s, "handler assigns")
            if restores != 1:
                self.fail(s, "handler does not restore the saved networks exactly once")
            out = []
            for p in paths:
                if not p.ops or p.ops[-1] != ("saveNet",):
                    self.fail(s, "try block is not immediately preceded by saving the networks")
                p.ops[-1] = ("tryBegin", catch_all, bool(getattr(self, "snapshot_exact", False)))
                res = self.stmts(s.body, [p])
                for r in res:
                    if r.done:
                        self.fail(s, "return inside try")
                    r.ops.append(("tryEnd",))
                out += res
            return out
        self.fail(s, "statement " + type(s).__name__)

    def run(self, fn, entry_known=True, env=None):
        p = _Path(cur=Aff(1, 0) if entry_known else None, env=env)
        p.locals = set(a.arg for a in fn.args.args if a.arg != "self")
        paths = self.stmts(fn.body, [p])
        outs = []
        for q in paths:
            if ("saveNet",) in q.ops:
                self.fail(fn, "networks saved without a protecting try block")
            ops = []
            for o in q.ops:                     # adjacent identical mutations / records count once
                if ops and o[0] in ("mutate", "record", "traceRead", "traceCompute") \
                        and ops[-1] == o:
                    continue
                ops.append(o)
            if ops not in outs:
                outs.append(ops)
        return outs


def _lean_op(o):
    def aff(k):
        return "⟨%d, %d⟩" % k
    t = o[0]
    if t in ("setStep", "mutate"):
        return ".%s %s" % (t, aff(o[1]))
    if t == "callUser":
        return ".callUser %d %s" % (o[1], aff(o[2]))
    if t == "control":
        return ".control %s %s" % ("true" if o[1] else "false", aff(o[2]))
    if t == "tryBegin":
        return ".tryBegin %s %s" % ("true" if o[1] else "false", "true" if o[2] else "false")
    return "." + t


def _lean_ops(ops):
    return "[" + ", ".join(_lean_op(o) for o in ops) + "]"


class SaveAwareExtractor(OrderExtractor):
    """`x = [backend.copy_networks() for backend in self._backend_list]` directly before a
    try block marks the start of a protected region."""

    def stmt(self, s, paths):
        if isinstance(s, ast.Assign) and len(s.targets) == 1 and isinstance(s.targets[0], ast.Name):
            calls = [n for n in ast.walk(s.value) if isinstance(n, ast.Call)
                     and attr_chain(n.func) and attr_chain(n.func)[-1].startswith("copy_networks")]
            if calls:
                others = [n for n in ast.walk(s.value) if isinstance(n, ast.Call)
                          and n not in calls and attr_chain(n.func) != ["zip"]]
                if others or len(calls) != 1:
                    self.fail(s, "network snapshot mixed with other calls")
                for p in paths:
                    p.ops.append(("saveNet",))
                return paths
        return super().stmt(s, paths)


def _body_without_doc(fn):
    body = list(fn.body)
    if body and isinstance(body[0], ast.Expr) and isinstance(body[0].value, ast.Constant) \
            and isinstance(body[0].value.value, str):
        body = body[1:]
    return body


def _snapshot_exact(src, rel, cls, step_method="compute_system_step"):
    """Do `copy_networks` / `restore_networks` of `cls` save and put back FULL COPIES of every
    `self.<attr>` that `step_method` assigns or changes in place?

      copy_networks    :  return self.a.copy(), self.b.copy(), ...
      restore_networks :  self.a, self.b, ... = <its parameter>

    Anything else (a length, a slice, a reconstruction in the handler) -> False."""
    step = src.function(rel, cls + "." + step_method)
    changed = set()
    for n in ast.walk(step):
        if isinstance(n, (ast.Assign, ast.AugAssign)):
            tgts = n.targets if isinstance(n, ast.Assign) else [n.target]
            for t in tgts:
                for x in ([t] if not isinstance(t, (ast.Tuple, ast.List)) else t.elts):
                    base = x.value if isinstance(x, ast.Subscript) else x
                    ch = attr_chain(base)
                    if ch and len(ch) == 2 and ch[0] == "self":
                        changed.add(ch[1])
        if isinstance(n, ast.Call):
            ch = attr_chain(n.func)
            if ch and len(ch) == 3 and ch[0] == "self" and ch[2] != "copy":
                changed.add(ch[1])
    cp = _body_without_doc(src.function(rel, cls + ".copy_networks"))
    if len(cp) != 1 or not isinstance(cp[0], ast.Return) or not isinstance(cp[0].value, ast.Tuple):
        return False
    saved = []
    for e in cp[0].value.elts:
        ch = attr_chain(e.func) if isinstance(e, ast.Call) and not e.args and not e.keywords else None
        if not (ch and len(ch) == 3 and ch[0] == "self" and ch[2] == "copy"):
            return False
        saved.append(ch[1])
    if len(set(saved)) != len(saved) or not changed <= set(saved):
        return False
    rfn = src.function(rel, cls + ".restore_networks")
    params = [a.arg for a in rfn.args.args if a.arg != "self"]
    rs = _body_without_doc(rfn)
    if len(params) != 1 or len(rs) != 1 or not isinstance(rs[0], ast.Assign) \
            or len(rs[0].targets) != 1 or not isinstance(rs[0].targets[0], ast.Tuple) \
            or not (isinstance(rs[0].value, ast.Name) and rs[0].value.id == params[0]):
        return False
    restored = [attr_chain(t) for t in rs[0].targets[0].elts]
    return restored == [["self", a] for a in saved]


def _is_none_test(t, attr):
    return isinstance(t, ast.Compare) and len(t.ops) == 1 and isinstance(t.ops[0], ast.Is) \
        and isinstance(t.comparators[0], ast.Constant) and t.comparators[0].value is None \
        and attr_chain(t.left) == ["self", attr]


def _specialise_regime(body, regime, found):
    """statements of compute_system_step for one memory regime:
      nocutoff : every `if self._dkmax is None:` takes its body
      within   : ... takes its else-part, and `if current_step <= self._dkmax:` its body
      beyond   : ... and that one its else-part"""
    out = []
    for st in body:
        if isinstance(st, ast.If) and _is_none_test(st.test, "_dkmax"):
            found["none"] += 1
            out += st.body if regime == "nocutoff" else _specialise_regime(st.orelse, regime, found)
        elif isinstance(st, ast.If) and isinstance(st.test, ast.Compare) \
                and len(st.test.ops) == 1 and isinstance(st.test.ops[0], ast.LtE) \
                and isinstance(st.test.left, ast.Name) and st.test.left.id == "current_step" \
                and attr_chain(st.test.comparators[0]) == ["self", "_dkmax"]:
            found["within"].append(st.test)
            out += st.body if regime == "within" else _specialise_regime(st.orelse, regime, found)
        else:
            out.append(st)
    return out


def _single(paths, what):
    if len(paths) != 1:
        raise Untranslatable("%s: expected straight-line code, found %d paths" % (what, len(paths)))
    return paths[0]


def _cond_translator(types):
    return FnTranslator(types)


def _loop_shape(src, rel, qual, step_call="compute_step"):
    """Locate the stepping loop of a compute() method.  Returns (init_guard_ok, loop node)."""
    fn = src.function(rel, qual)
    loops = [n for n in ast.walk(fn) if isinstance(n, (ast.While, ast.For))
             and any(isinstance(c, ast.Call) and attr_chain(c.func)
                     and attr_chain(c.func)[-1] == step_call for c in ast.walk(n))]
    if len(loops) != 1:
        raise Untranslatable("%s: expected exactly one loop calling %s" % (qual, step_call))
    # the initialisation guard:  if <...>.step is None: <...>.initialize()/initialise()
    guards = [n for n in fn.body if isinstance(n, ast.If)
              and isinstance(n.test, ast.Compare) and len(n.test.ops) == 1
              and isinstance(n.test.ops[0], ast.Is)
              and isinstance(n.test.comparators[0], ast.Constant)
              and n.test.comparators[0].value is None
              and (attr_chain(n.test.left) or [""])[-1] == "step"
              and any(isinstance(c, ast.Call) and attr_chain(c.func)
                      and attr_chain(c.func)[-1] in ("initialize", "initialise")
                      for c in ast.walk(n))]
    if len(guards) != 1 or fn.body.index(guards[0]) > [i for i, n in enumerate(fn.body)
                                                       if loops[0] in list(ast.walk(n))][0]:
        raise Untranslatable("%s: no `if step is None: initialize()` guard before the loop" % qual)
    return fn, loops[0]


def _is_step_call(e, step_call="compute_step"):
    return isinstance(e, ast.Call) and attr_chain(e.func) is not None \
        and attr_chain(e.func)[-1] == step_call and not e.args and not e.keywords


def _pure_progress_body(stmts, qual):
    """the rest of a loop body may only report progress"""
    for s in stmts:
        ok = isinstance(s, ast.Expr) and isinstance(s.value, ast.Call) \
            and (attr_chain(s.value.func) or [""])[0] == "prog_bar"
        if not ok:
            raise Untranslatable("%s: loop body does more than step and report progress: %s"
                                 % (qual, ast.unparse(s)[:60]))


@fragment("LoopOrder")
def frag_looporder(src):
    out = [LOOPORDER_PRELUDE]
    TB = "oqupy/backends/tempo_backend.py"

    def emit_ops(name, ops, doc):
        out.append("/-- %s -/\ndef %s : List MicroOp :=\n  %s\n" % (doc, name, _lean_ops(ops)))

    def emit_paths(name, paths, doc):
        out.append("/-- %s -/\ndef %s : List (List MicroOp) :=\n  [%s]\n"
                   % (doc, name, ",\n   ".join(_lean_ops(p) for p in paths)))

    # --- BaseTempoBackend.compute_system_step, per memory regime -------------
    # user callable 9 = self._influence: the influence functions evaluate the bath correlations
    # (CustomCorrelations function / spectral density j_function supplied by the user)
    css_spec = OrderSpec(user_noarg={"_influence": 9}, net={"_mps", "_mpo"},
                         pure=PURE_COMMON, pure_methods=PURE_METHODS_COMMON | {"get_tensor"})
    css_fn = src.function(TB, "BaseTempoBackend.compute_system_step")
    css = {}
    for regime in ("nocutoff", "within", "beyond"):
        found = {"none": 0, "within": []}
        body = _specialise_regime(css_fn.body, regime, found)
        if found["none"] == 0 or (regime != "nocutoff" and len(found["within"]) != 1):
            raise Untranslatable("compute_system_step: memory-regime branches not recognised")
        fake = ast.FunctionDef(name=css_fn.name, args=css_fn.args, body=body, decorator_list=[],
                               lineno=css_fn.lineno)
        css[regime] = _single(OrderExtractor(css_spec, "BaseTempoBackend.compute_system_step["
                                             + regime + "]").run(fake, env={"current_step": Aff(1, 0)}),
                              "compute_system_step[" + regime + "]")
        emit_ops("css_" + regime, css[regime],
                 "%s:%d  BaseTempoBackend.compute_system_step, memory regime `%s` (step values "
                 "relative to its argument current_step; user callable 9 = self._influence, i.e. "
                 "the bath correlations)" % (TB, css_fn.lineno, regime))
        if regime == "within":
            trc = FnTranslator({"current_step": "Int", "dkmax": "Int"})
            cnd = trc.expr(found["within"][0])
            out.append(emit_def("css_within_cond", trc, cnd[0], "Bool", ["current_step", "dkmax"],
                                "%s:%d  compute_system_step: the step lies within the memory "
                                "cut-off iff %s" % (TB, found["within"][0].lineno,
                                                    ast.unparse(found["within"][0]))))

    # --- TempoBackend.compute_step --------------------------------------
    spec = OrderSpec(user={"_propagators": 0}, net={"_mps", "_mpo"},
                     mut_methods={"compute_system_step"},
                     step_arg_methods={"compute_system_step"},
                     pure=PURE_COMMON, pure_methods=PURE_METHODS_COMMON)
    fn = src.function(TB, "TempoBackend.compute_step")
    ops = _single(OrderExtractor(spec, "TempoBackend.compute_step").run(fn), "TempoBackend.compute_step")
    emit_ops("tempo_compute_step", ops,
             "%s:%d  TempoBackend.compute_step; user callable 0 = self._propagators "
             "(system Hamiltonian / rates / Lindblad operators)" % (TB, fn.lineno))

    for regime in ("nocutoff", "within", "beyond"):
        spec_i = OrderSpec(user={"_propagators": 0}, net={"_mps", "_mpo"},
                           inline={"compute_system_step": css[regime]},
                           pure=PURE_COMMON, pure_methods=PURE_METHODS_COMMON)
        ops_i = _single(OrderExtractor(spec_i, "TempoBackend.compute_step").run(fn),
                        "TempoBackend.compute_step")
        emit_ops("tempo_step_" + regime, ops_i,
                 "TempoBackend.compute_step with compute_system_step spliced in, regime `%s`"
                 % regime)
    # the step argument as seen in the extracted list (the `mutate` of the coarse list)
    marg = [o[1] for o in ops if o[0] == "mutate"]
    if len(marg) != 1:
        raise Untranslatable("TempoBackend.compute_step: not exactly one network update")
    out.append("/-- step value passed to compute_system_step, relative to the counter at entry -/\n"
               "def tempo_css_arg : Aff := ⟨%d, %d⟩\n" % marg[0])

    # --- MeanFieldTempoBackend.compute_step -------------------------------
    spec = OrderSpec(user={"_compute_field_derivative": 0, "_compute_field": 2},
                     user_lists={"_propagators_list": 1}, net={"_mps", "_mpo"},
                     mut_methods={"compute_system_step"},
                     step_arg_methods={"compute_system_step"},
                     backend_lists={"_backend_list"},
                     pure=PURE_COMMON, pure_methods=PURE_METHODS_COMMON)
    fn = src.function(TB, "MeanFieldTempoBackend.compute_step")
    ex = SaveAwareExtractor(spec, "MeanFieldTempoBackend.compute_step")
    try:
        ex.snapshot_exact = _snapshot_exact(src, TB, "BaseTempoBackend")
    except Untranslatable:
        ex.snapshot_exact = False          # no copy_networks/restore_networks pair
    ops = _single(ex.run(fn), "MeanFieldTempoBackend.compute_step")
    mfn = fn
    marg = [o[1] for o in ops if o[0] == "mutate"]
    if len(marg) != 1:
        raise Untranslatable("MeanFieldTempoBackend.compute_step: not exactly one network update")
    out.append("/-- step value passed to compute_system_step, relative to the counter at entry -/\n"
               "def mft_css_arg : Aff := ⟨%d, %d⟩\n" % marg[0])
    for regime in ("nocutoff", "within", "beyond"):
        spec_i = OrderSpec(user={"_compute_field_derivative": 0, "_compute_field": 2},
                           user_lists={"_propagators_list": 1}, net={"_mps", "_mpo"},
                           inline={"compute_system_step": css[regime]},
                           backend_lists={"_backend_list"},
                           pure=PURE_COMMON, pure_methods=PURE_METHODS_COMMON)
        exi = SaveAwareExtractor(spec_i, "MeanFieldTempoBackend.compute_step")
        exi.snapshot_exact = ex.snapshot_exact
        emit_ops("mft_step_" + regime, _single(exi.run(mfn), "MeanFieldTempoBackend.compute_step"),
                 "MeanFieldTempoBackend.compute_step with compute_system_step spliced in, regime "
                 "`%s`" % regime)
    emit_ops("mft_compute_step", ops,
             "%s:%d  MeanFieldTempoBackend.compute_step; user callables: 0 = "
             "self._compute_field_derivative (field_eom), 1 = the propagators of each system "
             "(Hamiltonians), 2 = self._compute_field (field_eom, twice)" % (TB, fn.lineno))

    # --- initial step counters ---------------------------------------------
    for rel, qual, name in ((TB, "TempoBackend.initialize", "tempo_init_step"),
                            (TB, "MeanFieldTempoBackend.initialize", "mft_init_step"),
                            (TB, "TIBaseBackend.initialise", "gibbs_init_step"),
                            ("oqupy/backends/pt_tempo_backend.py", "PtTempoBackend.initialize",
                             "pt_init_step")):
        fn = src.function(rel, qual)
        hits = src.assignment(fn, "self._step")
        vals = [h.value for h in hits]
        if qual == "TIBaseBackend.initialise":
            # the branch that builds the network from scratch (mps is None)
            vals = [v for v in vals if isinstance(v, ast.Constant)]
        if len(vals) != 1 or not isinstance(vals[0], ast.Constant) or not isinstance(vals[0].value, int):
            raise Untranslatable("%s: step counter is not initialised with one integer constant" % qual)
        out.append("/-- %s:%d  %s:  self._step = %d -/\ndef %s : Int := %d\n"
                   % (rel, hits[0].lineno, qual, vals[0].value, name, vals[0].value))

    # --- TIBaseBackend.compute_step (Gibbs) --------------------------------
    spec = OrderSpec(net={"_mps"}, mut_methods={"_contract", "_truncate_left", "_truncate_right"},
                     record_attrs={"data"}, pure=PURE_COMMON, pure_methods=PURE_METHODS_COMMON)
    fn = src.function(TB, "TIBaseBackend.compute_step")
    paths = OrderExtractor(spec, "TIBaseBackend.compute_step").run(fn)
    emit_paths("gibbs_step_paths", paths,
               "%s:%d  TIBaseBackend.compute_step (one list per control-flow path)" % (TB, fn.lineno))

    # --- GibbsTempo.compute: number of steps and label of each new state -----
    ty = {"n_steps": "Int", "step": "Int", "num_steps": "Int", "tmp_end_step": "Int",
          "end_step": "Int", "len_process_tensor": "Int", "step_is_none": "Bool"}
    fn, loop = _loop_shape(src, "oqupy/tempo.py", "GibbsTempo.compute")
    if not (isinstance(loop, ast.For) and isinstance(loop.iter, ast.Call)
            and attr_chain(loop.iter.func) == ["range"] and len(loop.iter.args) == 1
            and isinstance(loop.iter.args[0], ast.Name)):
        raise Untranslatable("GibbsTempo.compute: loop is not `for i in range(<name>)`")
    cnt = loop.iter.args[0].id
    t, _ = translate_expr(src, "oqupy/tempo.py", "GibbsTempo.compute", cnt, "gibbs_num_step",
                          ty, "Int", ["n_steps", "step"])
    out.append(t)
    adds = [c for c in ast.walk(loop) if isinstance(c, ast.Call) and attr_chain(c.func)
            and attr_chain(c.func)[-2:] == ["_dynamics", "add"]]
    steps = [s for s in loop.body if isinstance(s, ast.Assign) and _is_step_call(s.value)]
    if len(adds) != 1 or len(steps) != 1 or not isinstance(steps[0].targets[0], ast.Tuple):
        raise Untranslatable("GibbsTempo.compute: loop body shape")
    tcall = adds[0].args[0]
    if not (isinstance(tcall, ast.Call) and attr_chain(tcall.func) == ["self", "_time"]):
        raise Untranslatable("GibbsTempo.compute: label is not self._time(..)")
    tr = FnTranslator(ty)
    lab = tr.expr(tcall.args[0])
    out.append(emit_def("gibbs_label_index", tr, lab[0], "Int", ["step"],
                        "oqupy/tempo.py:%d  GibbsTempo.compute: index labelling the state returned "
                        "by compute_step (step = the returned counter): self._time(%s)"
                        % (tcall.lineno, ast.unparse(tcall.args[0]))))

    # --- PtTempoBackend.compute_step + PtTempo.compute / get_process_tensor ----
    PB = "oqupy/backends/pt_tempo_backend.py"
    spec = OrderSpec(user={"_influence": 0}, net={"_mps", "_mpo"},
                     pure=PURE_COMMON, pure_methods=PURE_METHODS_COMMON)
    fn = src.function(PB, "PtTempoBackend.compute_step")
    paths = OrderExtractor(spec, "PtTempoBackend.compute_step").run(fn)
    emit_paths("pt_step_paths", paths,
               "%s:%d  PtTempoBackend.compute_step (one list per control-flow path); user "
               "callable 0 = self._influence (bath correlations)" % (PB, fn.lineno))
    rets = [n for n in ast.walk(fn) if isinstance(n, ast.Return)]
    if len(rets) != 1 or fn.body[-1] is not rets[0]:
        raise Untranslatable("PtTempoBackend.compute_step: not exactly one trailing return")
    tr = FnTranslator(ty)
    r = tr.expr(rets[0].value)
    if r[1] != "Bool":
        raise Untranslatable("PtTempoBackend.compute_step does not return a comparison")
    ret_term = r[0]
    out.append(emit_def("pt_step_returns", tr, ret_term, "Bool", ["step", "num_steps"],
                        "%s:%d  value returned by PtTempoBackend.compute_step (step = counter after "
                        "the step): %s" % (PB, rets[0].lineno, ast.unparse(rets[0].value))))

    fn, loop = _loop_shape(src, "oqupy/pt_tempo.py", "PtTempo.compute")
    if not isinstance(loop, ast.While) or loop.orelse:
        raise Untranslatable("PtTempo.compute: stepping loop is not a while loop")
    test = loop.test
    pre, post_is_ret, body = "true", False, loop.body
    if _is_step_call(test):                       # while compute_step(): ...
        post_is_ret = True
    elif isinstance(test, ast.BoolOp) and isinstance(test.op, ast.And) and len(test.values) == 2 \
            and _is_step_call(test.values[1]):    # while <cond> and compute_step(): ...
        tr = FnTranslator(ty)
        pre = tr.expr(test.values[0])[0]
        post_is_ret = True
    else:                                         # while <cond>: compute_step(); ...
        tr = FnTranslator(ty)
        c = tr.expr(test)
        if c[1] != "Bool" or not (body and isinstance(body[0], ast.Expr) and _is_step_call(body[0].value)):
            raise Untranslatable("PtTempo.compute: while-loop shape")
        pre, body = c[0], body[1:]
    _pure_progress_body(body, "PtTempo.compute")
    out.append("/-- oqupy/pt_tempo.py:%d  PtTempo.compute: condition checked BEFORE a step is taken "
               "(`true` when the loop test is the step call itself): while %s -/\n"
               "def pt_loop_pre (step : Int) (num_steps : Int) : Bool :=\n  let _unused := (step, num_steps)\n  %s\n"
               % (loop.lineno, ast.unparse(test), pre))
    out.append("/-- does the loop continue after a step that returned `r`? -/\n"
               "def pt_loop_post (r : Bool) : Bool :=\n  %s\n" % ("r" if post_is_ret else "let _unused := r\n  true"))

    fn = src.function("oqupy/pt_tempo.py", "PtTempo.get_process_tensor")
    ifs = [s for s in fn.body if isinstance(s, ast.If)]
    if len(ifs) != 2 or any(i.orelse for i in ifs) or not isinstance(fn.body[-1], ast.Return) \
            or attr_chain(fn.body[-1].value) != ["self", "_process_tensor"]:
        raise Untranslatable("PtTempo.get_process_tensor: shape")

    def only_call(i, meth):
        return len(i.body) == 1 and isinstance(i.body[0], ast.Expr) \
            and isinstance(i.body[0].value, ast.Call) \
            and (attr_chain(i.body[0].value.func) or [""])[-1] == meth
    if not only_call(ifs[0], "compute") or not only_call(ifs[1], "update_process_tensor"):
        raise Untranslatable("PtTempo.get_process_tensor: guarded calls")
    tr = FnTranslator(ty)
    c = tr.expr(ifs[0].test)
    out.append(emit_def("pt_get_needs_compute", tr, c[0], "Bool", ["step_is_none", "step", "num_steps"],
                        "oqupy/pt_tempo.py:%d  PtTempo.get_process_tensor: compute() is called iff %s"
                        % (ifs[0].lineno, ast.unparse(ifs[0].test))))
    tr = FnTranslator(ty)
    c = tr.expr(ifs[1].test)
    out.append(emit_def("pt_get_needs_update", tr, c[0], "Bool", ["len_process_tensor", "num_steps"],
                        "oqupy/pt_tempo.py:%d  PtTempo.get_process_tensor: the process tensor is "
                        "filled iff %s" % (ifs[1].lineno, ast.unparse(ifs[1].test))))

    # --- PtTebd ---------------------------------------------------------------
    TE = "oqupy/pt_tebd.py"
    spec = OrderSpec(net={"_t_mps"}, step_arg_methods={"apply_process_tensors"},
                     control_methods={"_apply_controls"}, record_methods={"_append_results"},
                     init_results_methods={"_init_results"}, start_attr="_start_step",
                     net_constructors={"PtTebdBackend"},
                     pure=PURE_COMMON | {"compute_tebd_propagator", "PtTebdBackend"},
                     pure_methods=PURE_METHODS_COMMON)
    fn = src.function(TE, "PtTebd.compute_step")
    ops = _single(OrderExtractor(spec, "PtTebd.compute_step").run(fn), "PtTebd.compute_step")
    emit_ops("tebd_compute_step", ops, "%s:%d  PtTebd.compute_step" % (TE, fn.lineno))
    fn = src.function(TE, "PtTebd.initialize")
    ops = _single(OrderExtractor(spec, "PtTebd.initialize").run(fn, entry_known=False),
                  "PtTebd.initialize")
    emit_ops("tebd_initialize", ops,
             "%s:%d  PtTebd.initialize (after `initStep` step values are relative to the start step)"
             % (TE, fn.lineno))
    # result recording and the read-only getters: what they do to the temporary traces
    gspec = OrderSpec(net={"_t_mps"}, trace_compute={"compute_traces"},
                      trace_clear={"clear_traces"},
                      trace_read={"get_norm", "get_density_matrix"},
                      record_attrs={"_results"}, record_local_methods={"add"},
                      pure=PURE_COMMON | {"isinstance", "AugmentedMPS"},
                      pure_methods=PURE_METHODS_COMMON | {"time", "get_bond_dimensions",
                                                          "get_gamma", "get_lambda"})
    for qual, name in (("PtTebd._append_results", "tebd_append_results"),
                       ("PtTebd.get_current_density_matrix", "tebd_get_dm"),
                       ("PtTebd.get_results", "tebd_get_results"),
                       ("PtTebd.get_augmented_mps", "tebd_get_mps")):
        fn = src.function(TE, qual)
        ops = _single(OrderExtractor(gspec, qual).run(fn), qual)
        emit_ops(name, ops, "%s:%d  %s" % (TE, fn.lineno, qual))
    TEB = "oqupy/backends/pt_tebd_backend.py"
    bspec = OrderSpec(trace_clear={"clear_traces"},
                      trace_compute={"_compute_bath_trace_gammas", "_compute_full_trace_gammas",
                                     "_compute_total_traces"},
                      pure=PURE_COMMON, pure_methods=PURE_METHODS_COMMON)
    fn = src.function(TEB, "PtTebdBackend.compute_traces")
    paths = OrderExtractor(bspec, "PtTebdBackend.compute_traces").run(fn)
    emit_paths("tebd_compute_traces_paths", paths,
               "%s:%d  PtTebdBackend.compute_traces (one list per control-flow path)"
               % (TEB, fn.lineno))
    fn, loop = _loop_shape(src, TE, "PtTebd.compute")
    if not isinstance(loop, ast.While) or loop.orelse or not loop.body \
            or not (isinstance(loop.body[0], ast.Expr) and _is_step_call(loop.body[0].value)):
        raise Untranslatable("PtTebd.compute: while-loop shape")
    _pure_progress_body(loop.body[1:], "PtTebd.compute")
    # the bound the loop compares with must be the integer value of the argument
    tr = FnTranslator(ty)
    c = tr.expr(loop.test)
    if c[1] != "Bool":
        raise Untranslatable("PtTebd.compute: loop test")
    out.append(emit_def("tebd_loop_cond", tr, c[0], "Bool", ["step", "tmp_end_step"],
                        "%s:%d  PtTebd.compute: while %s" % (TE, loop.lineno, ast.unparse(loop.test))))
    return "\n".join(out)


# ---------------------------------------------------------------------------
# CacheKeys  (C20):  memoised methods (cache key vs. attributes read), how Bath
# copies its correlations, and what the anchored code does to user arrays
# ---------------------------------------------------------------------------
#
# Grammar understood (anything else -> Untranslatable):
#  * memoisation: `@lru_cache(...)` directly on a method (key = the method's
#    parameters), or a module-level decorator of the shape
#        def deco(method):
#            @lru_cache(...)
#            def cached(self, extra, *args, **kwargs): return method(self, *args, **kwargs)
#            @wraps(method)
#            def wrapper(self, *args, **kwargs):
#                return cached(self, self.<keyfn>(), *args, **kwargs)
#            return wrapper
#    (key = the method's parameters + the attributes `self.<keyfn>()` returns:
#    `return (self.a, self.b, ...)` or `return super().<keyfn>() + (self.c, ...)`).
#  * attributes read: every `self.X` load in the body (nested defs/lambdas
#    included).  X resolves to (1) an instance attribute stored by an `__init__`
#    of the MRO: a plain value -> read `X`; a lambda (directly, through a local
#    name, through `np.vectorize(..)`, or handed to `super().__init__`) -> the
#    lambda's own reads with kind `closure` (its `self` is the object whose
#    `__init__` ran), and its free variables that are `__init__` parameters with
#    kind `frozen`;  (2) a method/property of the MRO -> that method's reads
#    (memoised callees are recorded in `calls`).
#  * array sites: a declared list of (file, function, user array) entry points;
#    inside the function the array is followed through  x.reshape(..),
#    x.shape = .., np.array(x, dtype=..[, order='C']),
#    copy(x)/cp.copy(x)/np.copy(x), x.copy(), x.setflags(write=False),
#    x[..] = .., x op= ..  and plain aliases (np.asarray / np.ascontiguousarray may
#    return their argument itself depending on its layout: not modelled, refused).  Every `.shape = ` store in the
#    anchored files must belong to a declared site or to INTERNAL_SHAPE_STORES.

C20_MEMO_FILES = ["oqupy/bath_correlations.py", "oqupy/system.py"]
C20_ANCHORS = ["oqupy/bath_correlations.py", "oqupy/bath.py", "oqupy/system.py",
               "oqupy/system_dynamics.py", "oqupy/gradient.py", "oqupy/util.py",
               "oqupy/tempo.py", "oqupy/mps_mpo.py"]

C20_TYPES = r'''
/-- how a method body gets at an attribute: `self.a` of the object the method is
    called on, `self.a` inside a lambda stored by `__init__` (its `self` is the
    object whose `__init__` ran, also in copies), or a constructor argument the
    lambda captured by value -/
inductive ReadKind where
  | direct | closure | frozen
  deriving DecidableEq, Repr

structure Read where
  attr : String
  kind : ReadKind
  deriving DecidableEq, Repr

/-- where memoised results live: in a module-level `lru_cache` keyed on the object's identity,
    or in a dict in the instance `__dict__` (which a shallow copy shares with its original) -/
inductive MemoPlacement where
  | module | instance
  deriving DecidableEq, Repr

/-- one public or memoised method of one concrete class -/
structure MemoSite where
  cls : String
  method : String
  line : Nat
  cached : Bool
  /-- parameters of the memoised function besides `self` (part of the key) -/
  keyParams : List String
  /-- attributes of `self` whose current values are part of the key -/
  keyAttrs : List String
  /-- attributes read by the body, transitively -/
  reads : List Read
  /-- memoised methods of `self` the body calls -/
  calls : List String
  placement : MemoPlacement
  deriving DecidableEq, Repr

/-- `once`: a copy is made at the first access and the *same* object handed out ever after -/
inductive CopyKind where
  | alias | shallow | deep | once
  deriving DecidableEq, Repr

structure CopySite where
  cls : String
  method : String
  line : Nat
  kind : CopyKind
  deriving DecidableEq, Repr

/-- a dimension expression of a shape written in the source -/
inductive Dim where
  | lit (n : Nat)
  | inp (k : Nat)            -- `shape[k]` of the user array
  | par (name : String)      -- an integer variable of the function
  | mul (a b : Dim)
  | pow (a : Dim) (n : Nat)
  deriving DecidableEq, Repr

inductive ShapeItem where
  | dim (d : Dim)
  | rep (d : Dim) (count : String)     -- `[d] * count`
  deriving DecidableEq, Repr

inductive ShapeE where
  | items (l : List ShapeItem)
  | inputInsertOne (indexPar : String)   -- `l = list(x.shape); l.insert(index, 1)`
  deriving DecidableEq, Repr

/-- what the code does with the user array (object 0) and arrays derived from it;
    creating operations append a new object -/
inductive AOp where
  | reshape (src : Nat) (shape : ShapeE)     -- y = x.reshape(shape)
  | setShape (tgt : Nat) (shape : ShapeE)    -- x.shape = shape
  | npArray (src : Nat)                      -- y = np.array(x, dtype=..)   (copy, order 'K')
  | npArrayC (src : Nat)                     -- y = np.array(x, dtype=.., order='C') / x.copy()
  | copyK (src : Nat)                        -- y = copy.copy(x) / np.copy(x)
  | setReadonly (tgt : Nat)                  -- x.setflags(write=False)
  | writeData (tgt : Nat)                    -- x[..] = .. / x op= .. / f(.., out=x)
  | viewOf (src : Nat)                       -- y = np.moveaxis(x, ..) / x.T / x[..]  (shares x's buffer; shape not followed)
  | computed                                 -- y = np.dot(x, ..) / util.create_delta(x, ..)  (a new array)
  deriving DecidableEq, Repr

structure ArraySite where
  file : String
  func : String
  param : String
  line : Nat
  /-- rank of the user array on this path (0: any rank) -/
  rank : Nat
  ops : List AOp
  deriving DecidableEq, Repr

/-- what a method keeps, on its object, that was derived from a caller-owned mutable argument
    (a parameter table), and how a later call recognises "the same argument":
    `none` nothing is kept; `content` by the argument's values (bytes / element-wise
    comparison with a private copy); `identity` by `is` / `id()` / a stored reference -/
inductive ArgKeyKind where
  | none | content | identity
  deriving DecidableEq, Repr

/-- where the array a public function returns comes from: built anew by every call (`fresh`),
    kept by a memoising decorator (`cached`), a module-level object (`constant`), or one of the
    function's own arguments (`argument`) -/
inductive ReturnKind where
  | fresh | cached | constant | argument
  deriving DecidableEq, Repr

structure ReturnSite where
  file : String
  func : String
  line : Nat
  kind : ReturnKind
  deriving DecidableEq, Repr

/-- does a (re-)initialisation recompute the attribute from the caller-owned objects every time? -/
inductive DerivedGuard where
  | always | onlyIfUnset
  deriving DecidableEq, Repr

structure DerivedStore where
  file : String
  func : String
  attr : String
  sources : List String
  line : Nat
  guard : DerivedGuard
  deriving DecidableEq, Repr

/-- an attribute written by a method that is not a constructor / `add_…` method, from values
    that depend on the method's arguments: `used` = arguments the stored value depends on,
    `keyedOn` = arguments the method compares / indexes by before re-using the stored value -/
structure GetterStore where
  file : String
  func : String
  attr : String
  line : Nat
  used : List String
  keyedOn : List String
  deriving DecidableEq, Repr

structure ArgStore where
  file : String
  func : String
  param : String
  line : Nat
  kind : ArgKeyKind
  /-- attributes of `self` the method assigns -/
  stores : List String
  deriving DecidableEq, Repr
'''


def _lstr(s):
    return '"' + s.replace("\\", "\\\\").replace('"', '\\"') + '"'


def _llist(items):
    return "[" + ", ".join(items) + "]"


class _ClassTable:
    """classes of one module with single-inheritance MRO inside the module"""

    def __init__(self, src, rel):
        self.rel = rel
        self.tree = src.tree(rel)
        self.classes = {c.name: c for c in self.tree.body if isinstance(c, ast.ClassDef)}
        self.functions = {f.name: f for f in self.tree.body if isinstance(f, ast.FunctionDef)}

    def mro(self, name):
        out = []
        while name in self.classes:
            out.append(self.classes[name])
            bases = [b.id for b in self.classes[name].bases if isinstance(b, ast.Name)]
            if len(self.classes[name].bases) > 1:
                raise Untranslatable("multiple inheritance in class " + name)
            name = bases[0] if bases else None
        return out

    def method(self, cls, name, after=None):
        """(defining class, FunctionDef) following the MRO (starting after class
        `after` for super() calls); None if the module does not define it"""
        chain = self.mro(cls)
        if after is not None:
            names = [c.name for c in chain]
            chain = chain[names.index(after) + 1:]
        for c in chain:
            for n in c.body:
                if isinstance(n, ast.FunctionDef) and n.name == name:
                    return c.name, n
        return None


def _is_lru_cache(dec):
    f = dec.func if isinstance(dec, ast.Call) else dec
    ch = attr_chain(f)
    return ch is not None and ch[-1] == "lru_cache"


def _param_names(fn):
    a = fn.args
    if a.posonlyargs or a.kwonlyargs:
        raise Untranslatable("positional-only/keyword-only parameters in " + fn.name)
    names = [x.arg for x in a.args]
    if not names or names[0] != "self":
        raise Untranslatable("memoised function %s is not a method" % fn.name)
    return names[1:], a.vararg is not None, a.kwarg is not None


def _key_decorator(tab, name):
    """Recognise the `cached on self.<keyfn>()` decorator; returns keyfn name."""
    fn = tab.functions.get(name)
    if fn is None or len(fn.args.args) != 1:
        return None
    meth = fn.args.args[0].arg
    inner = [n for n in fn.body if isinstance(n, ast.FunctionDef)]
    if len(inner) == 1:
        return _key_decorator_instance(name, fn, meth, inner[0])
    if len(inner) != 2:
        raise Untranslatable("decorator %s: expected a memoised function and a wrapper" % name)
    cached, wrapper = inner
    if not any(_is_lru_cache(d) for d in cached.decorator_list):
        raise Untranslatable("decorator %s: first inner function is not lru_cache'd" % name)
    ca = cached.args
    if [x.arg for x in ca.args][:1] != ["self"] or len(ca.args) != 2 \
            or ca.vararg is None or ca.kwarg is None:
        raise Untranslatable("decorator %s: memoised function must be (self, key, *args, **kwargs)" % name)
    body = [s for s in cached.body if not (isinstance(s, ast.Expr) and isinstance(s.value, ast.Constant))]
    want = "%s(self, *%s, **%s)" % (meth, ca.vararg.arg, ca.kwarg.arg)
    if len(body) != 1 or not isinstance(body[0], ast.Return) or ast.unparse(body[0].value) != want:
        raise Untranslatable("decorator %s: memoised function must return %s" % (name, want))
    wa = wrapper.args
    if [x.arg for x in wa.args] != ["self"] or wa.vararg is None or wa.kwarg is None:
        raise Untranslatable("decorator %s: wrapper must be (self, *args, **kwargs)" % name)
    body = [s for s in wrapper.body if not (isinstance(s, ast.Expr) and isinstance(s.value, ast.Constant))]
    if len(body) != 1 or not isinstance(body[0], ast.Return) or not isinstance(body[0].value, ast.Call):
        raise Untranslatable("decorator %s: wrapper must return one call" % name)
    call = body[0].value
    if not (isinstance(call.func, ast.Name) and call.func.id == cached.name and len(call.args) == 3
            and ast.unparse(call.args[0]) == "self" and isinstance(call.args[2], ast.Starred)
            and ast.unparse(call.args[2].value) == wa.vararg.arg and len(call.keywords) == 1
            and call.keywords[0].arg is None and ast.unparse(call.keywords[0].value) == wa.kwarg.arg):
        raise Untranslatable("decorator %s: wrapper must call %s(self, self.<key>(), *args, **kwargs)"
                             % (name, cached.name))
    k = call.args[1]
    ch = attr_chain(k.func) if isinstance(k, ast.Call) else None
    if ch is None or len(ch) != 2 or ch[0] != "self" or k.args or k.keywords:
        raise Untranslatable("decorator %s: the key must be self.<method>()" % name)
    last = fn.body[-1]
    if not (isinstance(last, ast.Return) and isinstance(last.value, ast.Name)
            and last.value.id == wrapper.name):
        raise Untranslatable("decorator %s must return its wrapper" % name)
    return ch[1], "module"


def _key_decorator_instance(name, fn, meth, wrapper):
    """The other shape understood: results kept in a dict on the instance,
        def wrapper(self, *args, **kwargs):
            parameters = self.<keyfn>()
            memo = self.__dict__.setdefault(.., {})            (or self._x)
            if <stored parameters> != parameters: memo.clear(); <store parameters>
            key = (.., args, ..kwargs..)
            .. memo[key] .. method(self, *args, **kwargs) ..
    (results are discarded when the key tuple differs from the one they were computed for)."""
    wa = wrapper.args
    if [x.arg for x in wa.args] != ["self"] or wa.vararg is None or wa.kwarg is None:
        raise Untranslatable("decorator %s: wrapper must be (self, *args, **kwargs)" % name)
    keycalls = [n for n in ast.walk(wrapper) if isinstance(n, ast.Call) and attr_chain(n.func)
                and len(attr_chain(n.func)) == 2 and attr_chain(n.func)[0] == "self"
                and not n.args and not n.keywords]
    keyvars = [s.targets[0].id for s in wrapper.body
               if isinstance(s, ast.Assign) and len(s.targets) == 1 and isinstance(s.targets[0], ast.Name)
               and s.value in keycalls]
    if len(keycalls) != 1 or len(keyvars) != 1:
        raise Untranslatable("decorator %s: expected `<var> = self.<key>()` once" % name)
    kv = keyvars[0]
    text = ast.unparse(wrapper)
    want = "%s(self, *%s, **%s)" % (meth, wa.vararg.arg, wa.kwarg.arg)
    if want not in text:
        raise Untranslatable("decorator %s: wrapper must call %s" % (name, want))
    on_instance = "self.__dict__" in text or any(
        isinstance(n, ast.Attribute) and isinstance(n.ctx, ast.Store) and isinstance(n.value, ast.Name)
        and n.value.id == "self" for n in ast.walk(wrapper))
    guarded_clear = any(
        isinstance(n, ast.If) and isinstance(n.test, ast.Compare)
        and any(isinstance(o, (ast.NotEq, ast.Eq)) for o in n.test.ops)
        and kv in [x.id for x in ast.walk(n.test) if isinstance(x, ast.Name)]
        and ".clear()" in ast.unparse(n) for n in ast.walk(wrapper))
    uses_args = wa.vararg.arg in [x.id for s in wrapper.body if isinstance(s, ast.Assign)
                                  for x in ast.walk(s.value) if isinstance(x, ast.Name)]
    if not (on_instance and guarded_clear and uses_args):
        raise Untranslatable("decorator %s: cannot read where and under which key results are kept"
                             % name)
    last = fn.body[-1]
    if not (isinstance(last, ast.Return) and isinstance(last.value, ast.Name)
            and last.value.id == wrapper.name):
        raise Untranslatable("decorator %s must return its wrapper" % name)
    return attr_chain(keycalls[0].func)[1], "instance"


class _MemoAnalysis:
    def __init__(self, tab):
        self.tab = tab
        self._stored = {}

    # -- what __init__ stores on the instance --------------------------------
    def stored(self, cls):
        """attr -> ('value', None) | ('closure', lambda node, class whose __init__ made it)"""
        if cls not in self._stored:
            st = {}
            hit = self.tab.method(cls, "__init__")
            if hit is not None:
                self._run_init(hit[0], hit[1], {}, st)
            self._stored[cls] = st
        return self._stored[cls]

    def _run_init(self, owner, fn, given, st):
        """given: parameter name -> ('closure', node, owner) for arguments that are lambdas"""
        loc = dict(given)

        def classify(e):
            if isinstance(e, ast.Lambda):
                return ("closure", e, owner)
            if isinstance(e, ast.Name):
                return loc.get(e.id, ("value", None, None))
            if isinstance(e, ast.Call) and len(e.args) == 1 and not e.keywords:
                inner = classify(e.args[0])          # np.vectorize(f), float(x)
                if inner[0] == "closure":
                    return inner
            return ("value", None, None)

        def walk(stmts):
            for s in stmts:
                if isinstance(s, ast.Assign) and len(s.targets) == 1:
                    t = s.targets[0]
                    if isinstance(t, ast.Name):
                        loc[t.id] = classify(s.value)
                    elif isinstance(t, ast.Attribute) and attr_chain(t) and attr_chain(t)[0] == "self" \
                            and len(attr_chain(t)) == 2:
                        st[t.attr] = classify(s.value)
                    elif isinstance(t, ast.Tuple):
                        for el in t.elts:
                            ch = attr_chain(el)
                            if ch and ch[0] == "self" and len(ch) == 2:
                                st[ch[1]] = ("value", None, None)
                elif isinstance(s, ast.Delete):
                    for t in s.targets:
                        ch = attr_chain(t)
                        if ch and ch[0] == "self" and len(ch) == 2:
                            st.pop(ch[1], None)
                elif isinstance(s, ast.Try):
                    walk(s.body); [walk(h.body) for h in s.handlers]; walk(s.orelse); walk(s.finalbody)
                elif isinstance(s, ast.If):
                    walk(s.body); walk(s.orelse)
                elif isinstance(s, ast.Expr) and isinstance(s.value, ast.Call):
                    c = s.value
                    if ast.unparse(c.func) == "super().__init__":
                        nxt = self.tab.method(owner, "__init__", after=owner)
                        if nxt is None:
                            continue              # base class outside the module (BaseAPIClass)
                        pnames = [a.arg for a in nxt[1].args.args][1:]
                        given2 = {}
                        for p, a in zip(pnames, c.args):
                            given2[p] = classify(a)
                        for kw in c.keywords:
                            if kw.arg is None:
                                raise Untranslatable("**kwargs in super().__init__ of " + owner)
                            given2[kw.arg] = classify(kw.value)
                        given2 = {k: v for k, v in given2.items() if v[0] == "closure"}
                        self._run_init(nxt[0], nxt[1], given2, st)
        walk(fn.body)

    # -- reads ---------------------------------------------------------------
    def reads_of_method(self, cls, name, kind="direct", stack=()):
        hit = self.tab.method(cls, name)
        if hit is None:
            return [(name, kind)], []
        return self.reads_of_node(cls, hit[1], kind, stack + ((cls, name, kind),), defcls=hit[0])

    def reads_of_node(self, cls, node, kind, stack, defcls=None, init_params=()):
        """(reads, memoised callees) of a FunctionDef/Lambda body evaluated with
        `self` an instance of `cls`"""
        reads, calls = [], []

        def add(r):
            if r not in reads:
                reads.append(r)

        def merge(r2, c2):
            for r in r2:
                add(r)
            for c in c2:
                if c not in calls:
                    calls.append(c)

        body = node.body if isinstance(node.body, list) else [node.body]
        where = "%s.%s" % (cls, getattr(node, "name", "<lambda>"))
        for b in body:
            parents = {}
            for n in ast.walk(b):
                for ch in ast.iter_child_nodes(n):
                    parents[ch] = n
            for n in ast.walk(b):
                if isinstance(n, ast.Name) and n.id == "self":
                    par = parents.get(n)
                    if not (isinstance(par, ast.Attribute) and par.value is n):
                        raise Untranslatable("%s uses `self` other than as self.<attr>" % where)
                    if not isinstance(par.ctx, ast.Load):
                        raise Untranslatable("%s assigns self.%s" % (where, par.attr))
                if isinstance(n, ast.Call) and ast.unparse(n.func).startswith("super()."):
                    nxt = self.tab.method(cls, n.func.attr, after=defcls)
                    if nxt is not None:
                        merge(*self.reads_of_node(cls, nxt[1], kind, stack, defcls=nxt[0]))
                if not (isinstance(n, ast.Attribute) and isinstance(n.value, ast.Name)
                        and n.value.id == "self"):
                    continue
                x = n.attr
                st = self.stored(cls).get(x)
                if st is not None and st[0] == "closure":
                    # a lambda stored by `owner.__init__`: its `self` is the constructed object
                    if (cls, x, "closure") in stack:
                        continue
                    lam, owner = st[1], st[2]
                    ifn = [m for m in self.tab.classes[owner].body
                           if isinstance(m, ast.FunctionDef) and m.name == "__init__"][0]
                    iparams = [a.arg for a in ifn.args.args][1:]
                    merge(*self.reads_of_node(cls, lam, "closure", stack + ((cls, x, "closure"),),
                                              init_params=iparams))
                elif st is not None:
                    add((x, kind))
                else:
                    hit = self.tab.method(cls, x)
                    if hit is None:
                        add((x, kind))            # attribute of a base class outside the module
                        continue
                    if (cls, x, kind) in stack:
                        continue
                    if self.memo_info(cls, x) is not None and kind == "direct" and x not in calls:
                        calls.append(x)
                    merge(*self.reads_of_method(cls, x, kind, stack))
        if init_params:
            lam_args = {a.arg for a in node.args.args}
            for b in body:
                for n in ast.walk(b):
                    if isinstance(n, ast.Name) and isinstance(n.ctx, ast.Load) \
                            and n.id in init_params and n.id not in lam_args:
                        add((n.id, "frozen"))
        return reads, calls

    # -- memoisation ---------------------------------------------------------
    def memo_info(self, cls, name):
        """None | (keyParams, keyAttrs) for method `name` of class `cls`"""
        hit = self.tab.method(cls, name)
        if hit is None:
            return None
        fn = hit[1]
        for d in fn.decorator_list:
            if _is_lru_cache(d):
                params, va, kw = _param_names(fn)
                if va or kw:
                    raise Untranslatable("*args/**kwargs in memoised method " + name)
                # the key contains `self`: by identity only if no class of the MRO overrides
                # equality / hashing
                for dunder in ("__eq__", "__hash__"):
                    if self.tab.method(cls, dunder) is not None:
                        raise Untranslatable("class %s defines %s: lru_cache on %s() no longer keys on "
                                             "the object's identity" % (cls, dunder, name))
                return params, [], "module"
            if isinstance(d, ast.Name) and d.id in self.tab.functions:
                hit2 = _key_decorator(self.tab, d.id)
                if hit2 is not None:
                    params, va, kw = _param_names(fn)
                    return params, self.key_attrs(cls, hit2[0]), hit2[1]
        return None

    def key_attrs(self, cls, keyfn, after=None):
        hit = self.tab.method(cls, keyfn, after=after)
        if hit is None:
            raise Untranslatable("class %s has no %s()" % (cls, keyfn))
        body = [s for s in hit[1].body
                if not (isinstance(s, ast.Expr) and isinstance(s.value, ast.Constant))]
        if len(body) != 1 or not isinstance(body[0], ast.Return):
            raise Untranslatable("%s.%s must be a single return" % (hit[0], keyfn))

        def tup(e):
            if isinstance(e, ast.Tuple):
                out = []
                for el in e.elts:
                    ch = attr_chain(el)
                    if ch is None or len(ch) != 2 or ch[0] != "self":
                        raise Untranslatable("%s.%s: key element %s is not self.<attr>"
                                             % (hit[0], keyfn, ast.unparse(el)))
                    out.append(ch[1])
                return out
            if isinstance(e, ast.BinOp) and isinstance(e.op, ast.Add):
                return tup(e.left) + tup(e.right)
            if isinstance(e, ast.Call) and ast.unparse(e.func) == "super().%s" % keyfn \
                    and not e.args and not e.keywords:
                return self.key_attrs(cls, keyfn, after=hit[0])
            raise Untranslatable("%s.%s: cannot read key expression %s"
                                 % (hit[0], keyfn, ast.unparse(e)))
        attrs = tup(body[0].value)
        # a key attribute that is a method of the class (bound method object) stands for
        # the attributes that method reads only if they are listed too: keep the name
        return attrs


def _c20_memo_sites(src):
    # `name` / `description`: settable properties of BaseAPIClass
    sites, closures, public = [], [], ["name", "description"]
    for rel in C20_MEMO_FILES:
        tab = _ClassTable(src, rel)
        an = _MemoAnalysis(tab)
        for cname, cnode in tab.classes.items():
            chain = tab.mro(cname)
            seen = set()
            has_memo = False
            cand = []
            for c in chain:
                for m in c.body:
                    if isinstance(m, ast.FunctionDef) and m.name not in seen:
                        seen.add(m.name)
                        cand.append(m.name)
            memo = {m: an.memo_info(cname, m) for m in cand}
            has_memo = any(v is not None for v in memo.values())
            if not has_memo:
                continue
            for m in cand:
                if memo[m] is None and (m.startswith("_") or
                                        any(isinstance(d, ast.Name) and d.id == "property" or
                                            isinstance(d, ast.Attribute)
                                            for d in tab.method(cname, m)[1].decorator_list)):
                    continue
                dcls, fn = tab.method(cname, m)
                reads, calls = an.reads_of_method(cname, m)
                if memo[m] is None and not reads:
                    continue                      # abstract / parameter-free method
                if memo[m] is not None:
                    calls = [c for c in calls if c != m]
                kp, ka, pl = memo[m] if memo[m] is not None else ([], [], "module")
                sites.append((cname, m, fn.lineno, memo[m] is not None, kp, ka, reads, calls, pl))
            for attr, v in sorted(an.stored(cname).items()):
                if v[0] == "closure":
                    closures.append((cname, attr, v[2], v[1].lineno))
                if not attr.startswith("_") and attr not in public:
                    public.append(attr)
    return sites, closures, public


def _c20_copy_sites(src):
    tab = _ClassTable(src, "oqupy/bath.py")
    tree = tab.tree
    kinds = {}
    for n in tree.body:
        if isinstance(n, ast.ImportFrom) and n.module == "copy":
            for a in n.names:
                kinds[a.asname or a.name] = {"copy": "shallow", "deepcopy": "deep"}.get(a.name)
    out = []
    bath = tab.classes.get("Bath")
    if bath is None:
        raise Untranslatable("class Bath not found")

    def kind_of(e, what):
        if isinstance(e, ast.Call) and isinstance(e.func, ast.Name) and e.func.id in kinds \
                and len(e.args) == 1 and ast.unparse(e.args[0]) == what:
            return kinds[e.func.id]
        if ast.unparse(e) == what:
            return "alias"
        raise Untranslatable("Bath: cannot read how %s is copied: %s" % (what, ast.unparse(e)))

    init = tab.method("Bath", "__init__")[1]
    hits = [n for n in ast.walk(init) if isinstance(n, ast.Assign) and len(n.targets) == 1
            and ast.unparse(n.targets[0]) == "self._correlations"]
    if len(hits) != 1:
        raise Untranslatable("Bath.__init__: expected one assignment to self._correlations")
    out.append(("Bath", "__init__", hits[0].lineno, kind_of(hits[0].value, "correlations")))
    prop = tab.method("Bath", "correlations")
    if prop is None:
        raise Untranslatable("Bath.correlations not found")
    rets = [n for n in ast.walk(prop[1]) if isinstance(n, ast.Return)]
    if len(rets) != 1:
        raise Untranslatable("Bath.correlations: expected one return")
    rv = rets[0].value
    ch = attr_chain(rv) if isinstance(rv, ast.Attribute) else None
    if ch is not None and len(ch) == 2 and ch[0] == "self" and ch[1] != "_correlations":
        # `return self.<kept>`: what is kept, and is it made anew on every access?
        kept = ch[1]
        assigns = [n for n in ast.walk(prop[1]) if isinstance(n, ast.Assign) and len(n.targets) == 1
                   and ast.unparse(n.targets[0]) == "self." + kept]
        if len(assigns) != 1:
            raise Untranslatable("Bath.correlations: cannot read what self.%s holds" % kept)
        inner = kind_of(assigns[0].value, "self._correlations")
        guarded = any(isinstance(n, ast.If) and assigns[0] in list(ast.walk(n))
                      and ("self.%s is None" % kept) in ast.unparse(n.test)
                      for n in ast.walk(prop[1]))
        unconditional = assigns[0] in prop[1].body
        if inner == "alias":
            kind = "alias"
        elif guarded:
            kind = "once"
        elif unconditional:
            kind = inner
        else:
            raise Untranslatable("Bath.correlations: cannot read when self.%s is renewed" % kept)
        out.append(("Bath", "correlations", rets[0].lineno, kind))
        return out
    out.append(("Bath", "correlations", rets[0].lineno, kind_of(rv, "self._correlations")))
    return out


# ---- attributes derived from caller-owned mutable objects at (re-)initialisation -------------
#
# (file, Class.method, attributes of self that hold caller-owned mutable objects).  Every
# `self.X = <expression reading one of them>` in the method must run on every call: an enclosing
# `if` whose test looks at `self.X` (is None / hasattr / truthiness) makes it `onlyIfUnset`.

# classes whose getters must be functions of their current arguments: every method except
# __init__ / add_* is searched for stores to attributes of self
C20_GETTER_CLASSES = [("oqupy/control.py", "Control"), ("oqupy/control.py", "ChainControl")]


def _c20_getter_stores(src):
    out = []
    for rel, cls in C20_GETTER_CLASSES:
        tab = _ClassTable(src, rel)
        if cls not in tab.classes:
            raise Untranslatable("%s has no class %s" % (rel, cls))
        for m in tab.classes[cls].body:
            if not isinstance(m, ast.FunctionDef) or m.name == "__init__" or m.name.startswith("add_"):
                continue
            if any(isinstance(d, ast.Attribute) and d.attr in ("setter", "deleter")
                   for d in m.decorator_list):
                continue
            params = [a.arg for a in m.args.args][1:]
            parents = {}
            for n in ast.walk(m):
                for ch in ast.iter_child_nodes(n):
                    parents[ch] = n
            for n in ast.walk(m):
                tgts = []
                if isinstance(n, ast.Assign):
                    tgts = n.targets
                elif isinstance(n, (ast.AugAssign, ast.AnnAssign)):
                    tgts = [n.target]
                for t in tgts:
                    base, subs = t, []
                    while isinstance(base, ast.Subscript):
                        subs.append(base.slice)
                        base = base.value
                    ch = attr_chain(base) if isinstance(base, ast.Attribute) else None
                    if ch is None or len(ch) != 2 or ch[0] != "self":
                        continue
                    value = getattr(n, "value", None)
                    names = lambda e: {x.id for x in ast.walk(e) if isinstance(x, ast.Name)}
                    used = [p_ for p_ in params if value is not None and p_ in names(value)]
                    keyed = [p_ for p_ in params if any(p_ in names(sl) for sl in subs)]
                    p_ = parents.get(n)
                    while p_ is not None and p_ is not m:
                        if isinstance(p_, ast.If):
                            # a comparison with the arguments counts as a key, `is None` does not
                            for c in ast.walk(p_.test):
                                if isinstance(c, ast.Compare) and not any(
                                        isinstance(o, (ast.Is, ast.IsNot)) for o in c.ops):
                                    keyed += [q for q in params if q in names(c) and q not in keyed]
                        p_ = parents.get(p_)
                    out.append((rel, "%s.%s" % (cls, m.name), ch[1], n.lineno, used, keyed))
    return out


C20_DERIVED_ENTRIES = [
    ("oqupy/pt_tebd.py", "PtTebd.initialize", ["_parameters", "_system_chain"]),
]


def _c20_derived_stores(src):
    out = []
    for rel, qual, sources in C20_DERIVED_ENTRIES:
        fn = src.function(rel, qual)
        parents = {}
        for n in ast.walk(fn):
            for ch in ast.iter_child_nodes(n):
                parents[ch] = n
        found = False
        for n in ast.walk(fn):
            if not (isinstance(n, ast.Assign) and len(n.targets) == 1):
                continue
            t = n.targets[0]
            ch = attr_chain(t) if isinstance(t, ast.Attribute) else None
            if ch is None or len(ch) != 2 or ch[0] != "self":
                continue
            used = [s_ for s_ in sources if any(
                isinstance(x, ast.Attribute) and attr_chain(x) and attr_chain(x)[:2] == ["self", s_]
                for x in ast.walk(n.value))]
            if not used:
                continue
            found = True
            guard, p = "always", parents.get(n)
            while p is not None and p is not fn:
                if isinstance(p, (ast.If, ast.While)):
                    if ("self." + ch[1]) in ast.unparse(p.test):
                        guard = "onlyIfUnset"
                    else:
                        raise Untranslatable("%s:%s: self.%s is assigned under `%s`"
                                             % (rel, qual, ch[1], ast.unparse(p.test)[:60]))
                elif isinstance(p, (ast.Try, ast.For, ast.With, ast.FunctionDef, ast.Lambda)):
                    raise Untranslatable("%s:%s: self.%s is assigned inside a %s"
                                         % (rel, qual, ch[1], type(p).__name__))
                p = parents.get(p)
            out.append((rel, qual, ch[1], used, n.lineno, guard))
        if not found:
            raise Untranslatable("%s:%s derives nothing from %s any more" % (rel, qual, sources))
    return out


# ---- array sites ----------------------------------------------------------

# (file, function, user array (parameter, `self._attr`, or `for <var> in <param>`), loop var)
C20_ARRAY_ENTRIES = [
    ("oqupy/system.py", "_check_hamiltonian", "hamiltonian", None),
    ("oqupy/system.py", "_check_gammas_lindblad_operators", "lindblad_operators", "lindblad_operator"),
    ("oqupy/system.py", "SystemChain.add_site_hamiltonian", "hamiltonian", None),
    ("oqupy/system.py", "SystemChain.add_site_liouvillian", "liouvillian", None),
    ("oqupy/system.py", "SystemChain.add_site_dissipation", "lindblad_operator", None),
    ("oqupy/system.py", "SystemChain.add_nn_hamiltonian", "hamiltonian_l", None),
    ("oqupy/system.py", "SystemChain.add_nn_hamiltonian", "hamiltonian_r", None),
    ("oqupy/system.py", "SystemChain.add_nn_liouvillian", "liouvillian_l_r", None),
    ("oqupy/system.py", "SystemChain.add_nn_dissipation", "lindblad_operator_l", None),
    ("oqupy/system.py", "SystemChain.add_nn_dissipation", "lindblad_operator_r", None),
    ("oqupy/bath.py", "Bath.__init__", "coupling_operator", None),
    ("oqupy/system_dynamics.py", "compute_dynamics", "initial_state", None),
    ("oqupy/system_dynamics.py", "compute_dynamics_with_field", "initial_state_list", "initial_state"),
    ("oqupy/gradient.py", "compute_gradient_and_dynamics", "initial_state", None),
    ("oqupy/gradient.py", "compute_gradient_and_dynamics", "target_derivative", None),
    ("oqupy/util.py", "add_singleton", "tensor", None),
    ("oqupy/tempo.py", "Tempo._prepare_backend", "self._initial_state", None),
    ("oqupy/mps_mpo.py", "Gate.__init__", "tensors", "tensor"),
    ("oqupy/mps_mpo.py", "AugmentedMPS.__init__", "gammas", "g"),
    ("oqupy/mps_mpo.py", "AugmentedMPS.__init__", "lambdas", "l"),
    # process tensors: user arrays stored by the setters, and the *stored* arrays in the getters
    # (object 0 is then the library-held tensor: it must come out of a getter unchanged)
    ("oqupy/process_tensor.py", "SimpleProcessTensor.set_initial_tensor", "initial_tensor", None),
    ("oqupy/process_tensor.py", "SimpleProcessTensor.set_mpo_tensor", "tensor", None),
    ("oqupy/process_tensor.py", "SimpleProcessTensor.set_cap_tensor", "tensor", None),
    ("oqupy/process_tensor.py", "SimpleProcessTensor.get_mpo_tensor", "self._mpo_tensors[*]", None),
    ("oqupy/process_tensor.py", "SimpleProcessTensor.get_cap_tensor", "self._cap_tensors[*]", None),
    ("oqupy/process_tensor.py", "SimpleProcessTensor.get_initial_tensor", "self._initial_tensor", None),
    # TwoTimeBathCorrelations keeps the caller's `system_correlations` (object 0 in its methods)
    ("oqupy/bath_dynamics.py", "TwoTimeBathCorrelations.generate_system_correlations",
     "self._system_correlations", None),
    ("oqupy/bath_dynamics.py", "TwoTimeBathCorrelations.occupation", "self._system_correlations", None),
    ("oqupy/bath_dynamics.py", "TwoTimeBathCorrelations.correlation", "self._system_correlations", None),
    # chains: the stored Liouvillians in the getter, and Liouvillians handed to the gate builders
    ("oqupy/system.py", "SystemChain.get_nn_full_liouvillians", "self._nn_liouvillians[*]", None),
    ("oqupy/system.py", "SystemChain.get_nn_full_liouvillians", "self._site_liouvillians[*]", None),
    ("oqupy/mps_mpo.py", "compute_nn_gate", "liouvillian", None),
    ("oqupy/mps_mpo.py", "compute_trotter_layers", "nn_full_liouvillians", "liouv"),
    # the caller's list of times (object 0 is the list: `x[i] = ..` on it is a write)
    ("oqupy/system_dynamics.py", "compute_correlations_nt", "ops_times", None),
]

# entry functions that may leave the array alone altogether (it is only read)
C20_MAY_BE_UNTOUCHED = {("oqupy/system_dynamics.py", "compute_correlations_nt"),
                        ("oqupy/mps_mpo.py", "compute_nn_gate"),
                        ("oqupy/mps_mpo.py", "compute_trotter_layers")}

# public functions whose returned arrays must be new objects on every call
C20_RETURN_ENTRIES = [("oqupy/operators.py", None), ("oqupy/util.py", ["create_delta"])]

_C20_FRESH_CALLS = ("np.identity", "np.eye", "np.array", "np.zeros", "np.ones", "np.empty", "np.full",
                    "np.kron", "np.outer", "np.diag", "np.dot", "np.matmul", "np.copy", "np.sqrt",
                    "np.arange", "np.linspace", "np.tensordot", "np.einsum", "np.conj")
_C20_VIEW_ATTRS = ("T", "real", "imag")
_C20_VIEW_METHODS = ("flatten", "copy", "conj", "conjugate", "astype")     # these copy
_C20_ALIAS_METHODS = ("reshape", "view", "transpose", "swapaxes", "ravel", "squeeze")


def _c20_return_kind(tab_functions, module_globals, fn, stack=()):
    """fresh | cached | constant | argument for the arrays `fn` returns"""
    for d in fn.decorator_list:
        if "cache" in ast.unparse(d).lower():
            return "cached"
    params = {a.arg for a in fn.args.args}
    local = {}
    for n in ast.walk(fn):
        if isinstance(n, ast.Assign) and len(n.targets) == 1 and isinstance(n.targets[0], ast.Name):
            local.setdefault(n.targets[0].id, []).append(n.value)

    def kind(e, depth=0):
        if depth > 8:
            raise Untranslatable("%s: return expression too deep" % fn.name)
        if isinstance(e, (ast.BinOp, ast.UnaryOp)):
            return "fresh"                      # numpy arithmetic allocates its result
        if isinstance(e, ast.Call):
            f = ast.unparse(e.func)
            if f in _C20_FRESH_CALLS:
                return "fresh"
            if isinstance(e.func, ast.Name) and e.func.id in tab_functions:
                if e.func.id in stack or e.func.id == fn.name:
                    return "fresh"
                return _c20_return_kind(tab_functions, module_globals, tab_functions[e.func.id],
                                        stack + (fn.name,))
            if isinstance(e.func, ast.Attribute) and e.func.attr in _C20_VIEW_METHODS:
                return "fresh"
            if isinstance(e.func, ast.Attribute) and e.func.attr in _C20_ALIAS_METHODS:
                return kind(e.func.value, depth + 1)
            raise Untranslatable("%s returns %s: cannot tell where the array comes from"
                                 % (fn.name, ast.unparse(e)[:60]))
        if isinstance(e, ast.Attribute) and e.attr in _C20_VIEW_ATTRS:
            return kind(e.value, depth + 1)       # a view of ...
        if isinstance(e, ast.Subscript):
            return kind(e.value, depth + 1)
        if isinstance(e, ast.Name):
            if e.id in local:
                ks = {kind(v, depth + 1) for v in local[e.id]}
                for bad in ("cached", "constant", "argument"):
                    if bad in ks:
                        return bad
                return "fresh"
            if e.id in params:
                return "argument"
            if e.id in module_globals:
                return "constant"
        raise Untranslatable("%s returns %s: cannot tell where the array comes from"
                             % (fn.name, ast.unparse(e)[:60]))
    kinds = [kind(r.value) for r in ast.walk(fn) if isinstance(r, ast.Return) and r.value is not None]
    if not kinds:
        raise Untranslatable("%s has no return value" % fn.name)
    for bad in ("cached", "constant", "argument"):
        if bad in kinds:
            return bad
    return "fresh"


def _c20_return_sites(src):
    out = []
    for rel, only in C20_RETURN_ENTRIES:
        tree = src.tree(rel)
        fns = {n.name: n for n in tree.body if isinstance(n, ast.FunctionDef)}
        globs = set()
        for n in tree.body:
            if isinstance(n, ast.Assign):
                for t in n.targets:
                    if isinstance(t, ast.Name):
                        globs.add(t.id)
        names = only if only is not None else [n for n in fns if not n.startswith("_")]
        for name in names:
            if name not in fns:
                raise Untranslatable("%s has no function %s" % (rel, name))
            out.append((rel, name, fns[name].lineno, _c20_return_kind(fns, globs, fns[name])))
    return out


# `.shape = ` stores on arrays that are not user input: (file, function) -> why
C20_INTERNAL_SHAPE_STORES = {
    ("oqupy/mps_mpo.py", "compute_nn_gate"):
        "operand is the fresh result of linalg.expm; the store only splits axes",
}


class _ArrayFlow:
    """Follow one user array through one function body (see grammar above)."""

    VIEW_FUNCS = ("np.moveaxis", "np.swapaxes", "np.transpose", "np.squeeze", "np.expand_dims",
                  "np.diagonal", "np.real", "np.imag", "np.ravel", "np.atleast_1d", "np.atleast_2d")
    # functions that write into their first argument when called with copy=False
    INPLACE_WITH_COPY_FALSE = ("np.nan_to_num",)
    NEW_FUNCS = ("np.nan_to_num", "np.pad", "np.append", "np.concatenate", "np.cumsum",
                 "np.dot", "np.matmul", "np.tensordot", "np.einsum", "np.kron", "np.conj",
                 "np.conjugate", "np.multiply", "np.add", "np.subtract", "np.exp", "np.sum",
                 "util.create_delta", "create_delta", "np.outer", "np.linalg.multi_dot")

    def __init__(self, rel, qual, fn, var, rank_branch=None, module_functions=None, depth=0):
        self.module_functions = module_functions or {}
        self.depth = depth
        self.ret = None
        self.done = {}               # id(call node) -> object it created (shared with followed helpers)
        self.dec = {"given": [], "n": 0}     # decisions at `if`s that matter (shared likewise)
        self.rel, self.qual, self.fn, self.var = rel, qual, fn, var
        self.names = {var: 0}        # python name (or 'self._x') -> object index
        self.nobj = 1
        self.ops = []
        self.first_line = None
        self.shape_vars = {}         # name -> object whose (input-equal) shape it holds
        self.rank_vars = set()
        self.insert_lists = {}       # name -> index parameter once `.insert(index, 1)` was seen
        self.list_of_shape = set()   # names holding list(x.shape)
        self.rank_branch = rank_branch
        self.ranks_seen = []
        self.notes = []

    # -- expressions -----------------------------------------------------
    def obj_of(self, e):
        if isinstance(e, ast.Name):
            return self.names.get(e.id)
        ch = attr_chain(e) if isinstance(e, ast.Attribute) else None
        if ch is not None:
            return self.names.get(".".join(ch))
        if isinstance(e, ast.Subscript) and isinstance(e.value, ast.Attribute) \
                and attr_chain(e.value) and attr_chain(e.value)[0] == "self":
            return self.names.get(".".join(attr_chain(e.value)) + "[*]")
        return None

    def value_obj(self, e):
        """object an expression evaluates to, emitting the operations that create it"""
        o = self.obj_of(e)
        if o is not None:
            return o
        if isinstance(e, ast.Attribute) and e.attr in ("T", "real", "imag", "flat"):
            src = self.value_obj(e.value)
            if src is not None:
                return self.new_obj("(.viewOf %d)" % src, e.lineno)
        if isinstance(e, ast.Subscript):
            src = self.value_obj(e.value)
            if src is not None:
                return self.new_obj("(.viewOf %d)" % src, e.lineno)
        if isinstance(e, (ast.BinOp, ast.UnaryOp)):
            if id(e) not in self.done:
                self.done[id(e)] = None
                parts = [e.left, e.right] if isinstance(e, ast.BinOp) else [e.operand]
                srcs = [self.value_obj(x) for x in parts]
                if any(x is not None for x in srcs):
                    self.done[id(e)] = self.new_obj("(.computed)", e.lineno)
            return self.done[id(e)]
        if isinstance(e, ast.Call):
            if id(e) not in self.done:
                self.done[id(e)] = None
                self.done[id(e)] = self.creating_call(e)
            return self.done[id(e)]
        return None

    def dim(self, e):
        if isinstance(e, ast.Constant) and isinstance(e.value, int) and e.value >= 0:
            return "(.lit %d)" % e.value
        if isinstance(e, ast.Name):
            return "(.par %s)" % _lstr(e.id)
        if isinstance(e, ast.Subscript) and isinstance(e.value, ast.Name) \
                and e.value.id in self.shape_vars and isinstance(e.slice, ast.Constant) \
                and isinstance(e.slice.value, int) and e.slice.value >= 0:
            return "(.inp %d)" % e.slice.value
        if isinstance(e, ast.BinOp) and isinstance(e.op, ast.Mult):
            return "(.mul %s %s)" % (self.dim(e.left), self.dim(e.right))
        if isinstance(e, ast.BinOp) and isinstance(e.op, ast.Pow) \
                and isinstance(e.right, ast.Constant) and isinstance(e.right.value, int):
            return "(.pow %s %d)" % (self.dim(e.left), e.right.value)
        raise Untranslatable("%s:%s: dimension expression %s" % (self.rel, self.qual, ast.unparse(e)))

    def items(self, e):
        if isinstance(e, (ast.Tuple, ast.List)):
            return ["(.dim %s)" % self.dim(x) for x in e.elts]
        if isinstance(e, ast.BinOp) and isinstance(e.op, ast.Add):
            return self.items(e.left) + self.items(e.right)
        if isinstance(e, ast.BinOp) and isinstance(e.op, ast.Mult) \
                and isinstance(e.left, ast.List) and len(e.left.elts) == 1 \
                and isinstance(e.right, ast.Name):
            return ["(.rep %s %s)" % (self.dim(e.left.elts[0]), _lstr(e.right.id))]
        if isinstance(e, ast.Call) and isinstance(e.func, ast.Name) and e.func.id in ("tuple", "list") \
                and len(e.args) == 1:
            return self.items(e.args[0])
        raise Untranslatable("%s:%s: shape expression %s" % (self.rel, self.qual, ast.unparse(e)))

    def shape(self, args):
        """shape argument(s) of reshape / right-hand side of `.shape =`"""
        if len(args) == 1:
            e = args[0]
            if isinstance(e, ast.Call) and isinstance(e.func, ast.Name) and e.func.id == "tuple" \
                    and len(e.args) == 1 and isinstance(e.args[0], ast.Name) \
                    and e.args[0].id in self.insert_lists:
                return "(.inputInsertOne %s)" % _lstr(self.insert_lists[e.args[0].id])
            if isinstance(e, (ast.Tuple, ast.List, ast.BinOp)) and not \
                    (isinstance(e, ast.BinOp) and isinstance(e.op, (ast.Mult, ast.Pow))
                     and not isinstance(e.left, ast.List)):
                return "(.items %s)" % _llist(self.items(e))
            if isinstance(e, ast.Call):
                return "(.items %s)" % _llist(self.items(e))
        return "(.items %s)" % _llist(["(.dim %s)" % self.dim(a) for a in args])

    def new_obj(self, op, line):
        self.ops.append(op)
        if self.first_line is None:
            self.first_line = line
        self.nobj += 1
        return self.nobj - 1

    def creating_call(self, e):
        """If `e` is a call creating an array from a tracked one, emit the op and
        return the new object's index."""
        if not isinstance(e, ast.Call):
            return None
        f = e.func
        fname = ".".join(attr_chain(f)) if attr_chain(f) else None
        # f(.., out=x): the result is written into x
        for kw in e.keywords:
            if kw.arg == "out":
                tgt = self.value_obj(kw.value)
                if tgt is not None:
                    for a in e.args:
                        self.value_obj(a)
                    self.ops.append("(.writeData %d)" % tgt)
                    if self.first_line is None:
                        self.first_line = e.lineno
                    return tgt
        kwd = {k.arg: k.value for k in e.keywords if k.arg}
        if "copy" in kwd and isinstance(kwd["copy"], ast.Constant) and kwd["copy"].value is False \
                and e.args and fname not in ("np.array", "np.asarray"):
            tgt = self.value_obj(e.args[0])
            if tgt is not None:
                if fname in self.INPLACE_WITH_COPY_FALSE:
                    self.ops.append("(.writeData %d)" % tgt)      # f(x, copy=False) works in x
                    if self.first_line is None:
                        self.first_line = e.lineno
                    return tgt
                return self.new_obj("(.viewOf %d)" % tgt, e.lineno)   # may be x itself
        if fname in self.VIEW_FUNCS and e.args:
            src = self.value_obj(e.args[0])
            if src is not None:
                return self.new_obj("(.viewOf %d)" % src, e.lineno)
        if isinstance(f, ast.Attribute) and f.attr in ("view", "transpose", "swapaxes", "squeeze",
                                                       "ravel", "diagonal") \
                and self.obj_of(f.value) is not None:
            return self.new_obj("(.viewOf %d)" % self.obj_of(f.value), e.lineno)
        if fname in self.NEW_FUNCS or (isinstance(f, ast.Attribute) and f.attr in
                                       ("dot", "conj", "conjugate", "astype", "sum")):
            srcs = [self.value_obj(a) for a in e.args]
            if isinstance(f, ast.Attribute) and fname not in self.NEW_FUNCS:
                srcs.append(self.value_obj(f.value))
            if any(x is not None for x in srcs):
                return self.new_obj("(.computed)", e.lineno)
        # a helper of the same module: followed with the tracked array(s) bound to its parameters
        if isinstance(f, ast.Name) and f.id in self.module_functions and self.depth < 3:
            callee = self.module_functions[f.id]
            pnames = [a.arg for a in callee.args.args]
            bound = {}
            for pn, a in zip(pnames, e.args):
                o = self.value_obj(a)
                if o is not None:
                    bound[pn] = o
            for kw in e.keywords:
                if kw.arg in pnames:
                    o = self.value_obj(kw.value)
                    if o is not None:
                        bound[kw.arg] = o
            if bound:
                sub = _ArrayFlow(self.rel, self.qual + ">" + f.id, callee, next(iter(bound)),
                                 module_functions=self.module_functions, depth=self.depth + 1)
                sub.names = dict(bound)
                sub.nobj, sub.ops, sub.first_line = self.nobj, self.ops, self.first_line or e.lineno
                sub.done = self.done
                sub.dec = self.dec
                nops = len(self.ops)
                sub.first_line = self.first_line
                sub.run(callee.body)
                self.nobj = sub.nobj
                if len(self.ops) > nops:
                    self.first_line = sub.first_line or e.lineno
                self.notes += ["followed into %s" % f.id] + sub.notes
                return sub.ret
        if isinstance(f, ast.Attribute) and f.attr == "reshape":
            src = self.obj_of(f.value)
            if src is None:
                src = self.creating_call(f.value)
            if src is not None:
                if e.keywords:
                    raise Untranslatable("%s:%s: keyword arguments of reshape" % (self.rel, self.qual))
                return self.new_obj("(.reshape %d %s)" % (src, self.shape(e.args)), e.lineno)
        if isinstance(f, ast.Attribute) and f.attr == "copy" and not e.args:
            src = self.obj_of(f.value)
            if src is not None:
                return self.new_obj("(.npArrayC %d)" % src, e.lineno)
        if fname in ("np.array", "np.asarray", "np.ascontiguousarray", "np.copy", "copy",
                     "cp.copy", "copy.copy") and e.args:
            src = self.obj_of(e.args[0])
            if src is None:
                return None
            kws = {k.arg: k.value for k in e.keywords}
            extra = set(kws) - {"dtype", "order"}
            if extra or len(e.args) > 2:
                raise Untranslatable("%s:%s: arguments of %s" % (self.rel, self.qual, ast.unparse(e)))
            order = kws.get("order")
            order = order.value if isinstance(order, ast.Constant) else ("K" if order is None else "?")
            if fname == "np.array" and order == "K":
                return self.new_obj("(.npArray %d)" % src, e.lineno)
            if fname == "np.array" and order == "C":
                return self.new_obj("(.npArrayC %d)" % src, e.lineno)
            if fname in ("np.copy", "copy", "cp.copy", "copy.copy") and order == "K":
                return self.new_obj("(.copyK %d)" % src, e.lineno)
            raise Untranslatable("%s:%s: cannot read %s" % (self.rel, self.qual, ast.unparse(e)))
        return None

    # -- statements ------------------------------------------------------
    def scan_calls(self, node):
        """creating calls inside an arbitrary expression (results unnamed)"""
        for n in ast.walk(node):
            if isinstance(n, ast.Call):
                self.value_obj(n)

    def run(self, stmts):
        for s in stmts:
            self.stmt(s)

    def stmt(self, s):
        if isinstance(s, ast.Assign) and len(s.targets) == 1:
            t, v = s.targets[0], s.value
            tname = t.id if isinstance(t, ast.Name) else (
                ".".join(attr_chain(t)) if isinstance(t, ast.Attribute) and attr_chain(t) else None)
            # x.shape = ...
            if isinstance(t, ast.Attribute) and t.attr == "shape":
                tgt = self.obj_of(t.value)
                if tgt is not None:
                    self.ops.append("(.setShape %d %s)" % (tgt, self.shape([v])))
                    if self.first_line is None:
                        self.first_line = s.lineno
                    return
            # x[...] = ...
            if isinstance(t, ast.Subscript):
                tgt = self.obj_of(t.value)
                if tgt is not None:
                    self.ops.append("(.writeData %d)" % tgt)
                    return
            # tuple unpacking that re-binds the tracked name from an input-parse result
            if isinstance(t, ast.Tuple):
                for el in t.elts:
                    if isinstance(el, ast.Name) and el.id in self.names and el.id != self.var:
                        del self.names[el.id]
                if any(isinstance(el, ast.Name) and el.id == self.var for el in t.elts):
                    self.notes.append("line %d: `%s` re-bound by unpacking `%s` (taken to be the "
                                      "same array object)" % (s.lineno, self.var, ast.unparse(v)))
                return
            if tname is None:
                self.scan_calls(v)
                return
            # shape / rank bookkeeping
            sv = v
            if isinstance(sv, ast.Call) and isinstance(sv.func, ast.Name) \
                    and sv.func.id in ("deepcopy", "copy", "tuple", "list") and len(sv.args) == 1:
                inner = sv.args[0]
                if isinstance(inner, ast.Attribute) and inner.attr == "shape" \
                        and self.obj_of(inner.value) is not None:
                    self.shape_vars[tname] = self.obj_of(inner.value)
                    if sv.func.id == "list":
                        self.list_of_shape.add(tname)
                    return
            if isinstance(sv, ast.Attribute) and sv.attr == "shape" and self.obj_of(sv.value) is not None:
                self.shape_vars[tname] = self.obj_of(sv.value)
                return
            if isinstance(sv, ast.Call) and isinstance(sv.func, ast.Name) and sv.func.id == "len" \
                    and len(sv.args) == 1 and isinstance(sv.args[0], ast.Name) \
                    and sv.args[0].id in self.shape_vars:
                self.rank_vars.add(tname)
                return
            # alias / creation
            src = self.value_obj(v)
            if src is not None:
                self.names[tname] = src
                return
            self.scan_calls(v)
            if tname in self.names and tname != self.var:
                del self.names[tname]
            elif tname == self.var and self.var.startswith("self."):
                # the attribute now holds an array made by the library; object 0 stays the
                # array that was stored first
                self.names[tname] = self.new_obj("(.computed)", s.lineno)
            elif tname == self.var:
                raise Untranslatable("%s:%s: `%s` is re-bound to %s" % (self.rel, self.qual, self.var,
                                                                          ast.unparse(v)))
            return
        if isinstance(s, ast.AugAssign):
            tgt = self.obj_of(s.target)
            if tgt is None and isinstance(s.target, ast.Subscript):
                tgt = self.obj_of(s.target.value)
            if tgt is not None:
                self.ops.append("(.writeData %d)" % tgt)
            self.scan_calls(s.value)
            return
        if isinstance(s, ast.Expr):
            v = s.value
            if isinstance(v, ast.Call) and isinstance(v.func, ast.Attribute):
                tgt = self.obj_of(v.func.value)
                if tgt is not None and v.func.attr == "setflags":
                    kws = {k.arg: ast.unparse(k.value) for k in v.keywords}
                    if kws == {"write": "False"} and not v.args:
                        self.ops.append("(.setReadonly %d)" % tgt)
                        return
                    raise Untranslatable("%s:%s: %s" % (self.rel, self.qual, ast.unparse(v)))
                if tgt is not None and v.func.attr in ("sort", "fill", "resize", "itemset", "put",
                                                       "partition", "byteswap"):
                    self.ops.append("(.writeData %d)" % tgt)
                    return
                # shape_list.insert(index, 1)
                if isinstance(v.func.value, ast.Name) and v.func.value.id in self.list_of_shape \
                        and v.func.attr == "insert" and len(v.args) == 2 \
                        and isinstance(v.args[0], ast.Name) and ast.unparse(v.args[1]) == "1":
                    self.insert_lists[v.func.value.id] = v.args[0].id
                    return
            self.scan_calls(v)
            return
        if isinstance(s, ast.If):
            test = s.test
            # if <rank var> == k: ... elif ...: one site per k
            if isinstance(test, ast.Compare) and isinstance(test.left, ast.Name) \
                    and test.left.id in self.rank_vars and len(test.ops) == 1 \
                    and isinstance(test.ops[0], ast.Eq) and isinstance(test.comparators[0], ast.Constant):
                k = test.comparators[0].value
                self.ranks_seen.append(k)
                if self.rank_branch == k:
                    self.run(s.body)
                else:
                    self.run(s.orelse)
                return
            # if callable(x): x = x(...)   -- the user array is then what the user's function returns
            if isinstance(test, ast.Call) and isinstance(test.func, ast.Name) \
                    and test.func.id == "callable" and len(test.args) == 1 \
                    and ast.unparse(test.args[0]) == self.var:
                self.notes.append("line %d: `%s` may be a callable returning the array"
                                  % (s.lineno, self.var))
                return
            # if copy: ten = cp.copy(tensor) else: ten = tensor   (parameter defaulting to True)
            if isinstance(test, ast.Name) and test.id in self.default_true() \
                    and len(s.body) == 1 and len(s.orelse) == 1 \
                    and all(isinstance(b, ast.Assign) and len(b.targets) == 1 for b in s.body + s.orelse) \
                    and ast.unparse(s.body[0].targets[0]) == ast.unparse(s.orelse[0].targets[0]) \
                    and self.obj_of(s.orelse[0].value) is not None:
                self.notes.append("line %d: branch `%s` (default True) followed; the other branch "
                                  "works in place on request" % (s.lineno, test.id))
                self.run(s.body)
                return
            self.scan_calls(test)
            # does taking the branch matter for the tracked arrays?  try both on a copy of the state
            def state():
                return (dict(self.names), self.nobj, len(self.ops), dict(self.shape_vars),
                        set(self.rank_vars), dict(self.insert_lists), set(self.list_of_shape),
                        dict(self.done), self.ret, self.first_line, len(self.notes))

            def restore(st):
                (self.names, self.nobj, nops, self.shape_vars, self.rank_vars, self.insert_lists,
                 self.list_of_shape, done, self.ret, self.first_line, nnotes) = \
                    (dict(st[0]), st[1], st[2], dict(st[3]), set(st[4]), dict(st[5]), set(st[6]),
                     st[7], st[8], st[9], st[10])
                del self.ops[nops:]
                del self.notes[nnotes:]
                self.done.clear()
                self.done.update(done)
            before = state()
            n0 = self.dec["n"]
            self.run(s.body)
            after_body = (dict(self.names), self.nobj, len(self.ops), self.ret)
            restore(before)
            self.dec["n"] = n0
            self.run(s.orelse)
            after_else = (dict(self.names), self.nobj, len(self.ops), self.ret)
            restore(before)
            self.dec["n"] = n0
            if after_body == after_else and after_body[2] == before[2]:
                return                       # neither branch touches the tracked arrays
            k = self.dec["n"]
            self.dec["n"] += 1
            take = self.dec["given"][k] if k < len(self.dec["given"]) else True
            self.run(s.body if take else s.orelse)
            return
        if isinstance(s, ast.For):
            self.run(s.body)
            self.run(s.orelse)
            return
        if isinstance(s, (ast.While, ast.With)):
            self.run(s.body)
            return
        if isinstance(s, ast.Try):
            self.run(s.body)
            for h in s.handlers:
                pass
            self.run(s.orelse)
            self.run(s.finalbody)
            return
        if isinstance(s, ast.Return) and s.value is not None:
            r = self.value_obj(s.value)
            if r is not None:
                self.ret = r
            self.scan_calls(s.value)
            return
        if isinstance(s, (ast.Assert, ast.Raise, ast.Pass, ast.FunctionDef, ast.Return,
                          ast.AnnAssign, ast.Delete, ast.Import, ast.ImportFrom, ast.Break,
                          ast.Continue, ast.Global, ast.Nonlocal)):
            return
        raise Untranslatable("%s:%s: statement %s" % (self.rel, self.qual, type(s).__name__))

    def default_true(self):
        a = self.fn.args
        out = set()
        for arg, d in zip(a.args[len(a.args) - len(a.defaults):], a.defaults):
            if isinstance(d, ast.Constant) and d.value is True:
                out.add(arg.arg)
        return out


def _c20_array_sites(src):
    sites, notes, covered = [], [], set()
    for rel, qual, var, loopvar in C20_ARRAY_ENTRIES:
        fn = src.function(rel, qual)
        track = loopvar or var
        # the variable must exist: parameter, self attribute, or loop variable over the parameter
        text = ast.unparse(fn)
        if loopvar is None and not var.startswith("self.") \
                and var not in [a.arg for a in fn.args.args]:
            raise Untranslatable("%s:%s has no parameter %s" % (rel, qual, var))
        if loopvar is not None:
            loops = [n for n in ast.walk(fn) if isinstance(n, ast.For)
                     and loopvar in [x.id for x in ast.walk(n.target) if isinstance(x, ast.Name)]]
            if not loops:
                raise Untranslatable("%s:%s: no loop over %s binding %s" % (rel, qual, var, loopvar))
        modfns = {n.name: n for n in src.tree(rel).body if isinstance(n, ast.FunctionDef)}
        probe = _ArrayFlow(rel, qual, fn, track, module_functions=modfns)
        probe.run(fn.body)
        branches = sorted(set(probe.ranks_seen)) or [None]
        for rb in branches:
            # one site per combination of the `if`s that matter for the tracked arrays
            paths, todo, seen_ops = [], [[]], []
            while todo:
                given = todo.pop(0)
                fl = _ArrayFlow(rel, qual, fn, track, rank_branch=rb, module_functions=modfns)
                fl.dec["given"] = given
                fl.run(fn.body)
                if fl.dec["n"] > 10:
                    raise Untranslatable("%s:%s: too many branches touch %s" % (rel, qual, track))
                if fl.dec["n"] > len(given):
                    todo += [given + [True], given + [False]]
                    continue
                if fl.ops not in seen_ops:
                    seen_ops.append(fl.ops)
                    paths.append(fl)
            if not track.startswith("self.") and (rel, qual) not in C20_MAY_BE_UNTOUCHED:
                if not any(fl.ops for fl in paths):
                    raise Untranslatable("%s:%s: nothing is done with %s any more" % (rel, qual, track))
                paths = [fl for fl in paths if fl.ops]
            for k, fl in enumerate(paths):
                sites.append((rel, qual + ("#%d" % k if len(paths) > 1 else ""),
                              var if loopvar is None else "%s[*]" % var, fl.first_line or fn.lineno,
                              rb or 0, fl.ops))
                notes += ["%s:%s %s" % (rel, qual, n) for n in fl.notes
                          if "%s:%s %s" % (rel, qual, n) not in notes]
        covered.add((rel, qual))
    # completeness: every `.shape = ` store in the anchors is accounted for
    for rel in C20_ANCHORS:
        tree = src.tree(rel)

        def visit(node, qual):
            for ch in ast.iter_child_nodes(node):
                q = qual
                if isinstance(ch, (ast.FunctionDef, ast.ClassDef)):
                    q = (qual + "." if qual else "") + ch.name
                if isinstance(ch, ast.Assign):
                    for t in ch.targets:
                        if isinstance(t, ast.Attribute) and t.attr == "shape":
                            top = ".".join(qual.split(".")[:2]) if qual else qual
                            ok = any((rel, c) in covered or (rel, c) in C20_INTERNAL_SHAPE_STORES
                                     for c in (qual, top, qual.split(".")[0]))
                            if not ok:
                                raise Untranslatable(
                                    "%s:%d: `%s = ...` in %s is not a declared array site"
                                    % (rel, ch.lineno, ast.unparse(t), qual))
                visit(ch, q)
        visit(tree, "")
    # the input parse hands the state through unchanged
    for rel, qual, name in (("oqupy/system_dynamics.py", "_compute_dynamics_input_parse", "initial_state"),
                            ("oqupy/tempo.py", "_tempo_physical_input_parse", "initial_state")):
        fn = src.function(rel, qual)
        for n in ast.walk(fn):
            if isinstance(n, ast.Name) and n.id == name and isinstance(n.ctx, ast.Store):
                raise Untranslatable("%s:%s re-binds %s" % (rel, qual, name))
    return sites, notes


# ---- results kept per object that derive from a caller-owned table -----------
#
# Grammar: every function of C20_ARG_ENTRIES is searched (nested defs and lambdas included) for
#   stores   self.X = ..   self.X[..] = ..   self.X op= ..   self.X.update/append/setdefault/..(..)
#            `global` / `nonlocal` statements, memoising decorators.
# No store, no decorator -> `none`.  Otherwise the way the argument P is recognised again:
#   identity  `P is ..` / `.. is P` / `is not`, `id(P)`, or a plain reference `self.X = P`
#   content   P.tobytes() / P.tolist() / tuple(..P..) / hash(..P..) / np.array_equal(P, ..) /
#             np.array(P) / P.copy() / np.copy(P) stored for an element-wise comparison
# identity evidence wins; stores without either -> Untranslatable.

C20_ARG_ENTRIES = [
    ("oqupy/system.py", "ParameterizedSystem.liouvillian", "parameters"),
    ("oqupy/system.py", "ParameterizedSystem.get_propagators", "parameters"),
    ("oqupy/system.py", "ParameterizedSystem.halfstep_propagator_derivative", None),
    ("oqupy/system.py", "ParameterizedSystem.get_propagator_derivatives", "parameters"),
    ("oqupy/gradient.py", "state_gradient", "parameters"),
    ("oqupy/gradient.py", "compute_gradient_and_dynamics", "parameters"),
    ("oqupy/gradient.py", "_chain_rule", None),
]

_C20_MUTATORS = ("update", "append", "setdefault", "extend", "insert", "pop", "clear",
                 "__setitem__", "add")


def _c20_arg_store(src, rel, qual, param):
    fn = src.function(rel, qual)
    names = [a.arg for a in fn.args.args] + ([fn.args.vararg.arg] if fn.args.vararg else [])
    if param is not None and param not in names:
        raise Untranslatable("%s:%s has no parameter %s" % (rel, qual, param))
    stores, ident, content, memo = [], [], [], []
    for d in fn.decorator_list:
        if _is_lru_cache(d) or (isinstance(d, ast.Name) and "cache" in d.id.lower()):
            memo.append(ast.unparse(d))

    # local names bound to (parts of) attributes of self:  computed = self._store
    alias = {}
    for n in ast.walk(fn):
        if isinstance(n, ast.Assign) and len(n.targets) == 1 and isinstance(n.targets[0], ast.Name):
            e = n.value
            while isinstance(e, (ast.Subscript, ast.Attribute, ast.Call)):
                if isinstance(e, ast.Attribute) and isinstance(e.value, ast.Name) \
                        and e.value.id == "self":
                    alias[n.targets[0].id] = e.attr
                    break
                e = e.func if isinstance(e, ast.Call) else e.value

    def self_attr(e):
        top = e
        while isinstance(e, (ast.Subscript, ast.Attribute)):
            if isinstance(e, ast.Attribute) and isinstance(e.value, ast.Name) and e.value.id == "self":
                return e.attr
            e = e.value
        if isinstance(e, ast.Name) and e.id in alias and e is not top:
            return alias[e.id]
        return None

    def mentions(e):
        return param is not None and any(isinstance(n, ast.Name) and n.id == param
                                         for n in ast.walk(e))
    for n in ast.walk(fn):
        if isinstance(n, (ast.Global, ast.Nonlocal)):
            stores.append("%s %s" % (type(n).__name__.lower(), ",".join(n.names)))
        if isinstance(n, (ast.Assign, ast.AugAssign, ast.AnnAssign)):
            tgts = n.targets if isinstance(n, ast.Assign) else [n.target]
            for t in tgts:
                for el in (t.elts if isinstance(t, ast.Tuple) else [t]):
                    a = self_attr(el)
                    if a is not None:
                        if a not in stores:
                            stores.append(a)
                        v = getattr(n, "value", None)
                        if v is not None and isinstance(v, ast.Name) and v.id == param:
                            ident.append("line %d: self.%s = %s" % (n.lineno, a, param))
                        elif v is not None and mentions(v) and isinstance(v, ast.Call) and \
                                ast.unparse(v.func) in ("np.array", "np.copy", param + ".copy",
                                                        "copy", "deepcopy", "np.asarray"):
                            if ast.unparse(v.func) == "np.asarray":
                                ident.append("line %d: self.%s = np.asarray(%s)" % (n.lineno, a, param))
                            else:
                                content.append("line %d: private copy self.%s" % (n.lineno, a))
        if isinstance(n, ast.Call) and isinstance(n.func, ast.Attribute) \
                and n.func.attr in _C20_MUTATORS:
            a = self_attr(n.func.value)
            if a is not None and a not in stores:
                stores.append(a)
        if isinstance(n, ast.Compare) and any(isinstance(o, (ast.Is, ast.IsNot)) for o in n.ops):
            sides = [n.left] + list(n.comparators)
            if any(isinstance(x, ast.Name) and x.id == param for x in sides) and not any(
                    isinstance(x, ast.Constant) and x.value is None for x in sides):
                ident.append("line %d: %s" % (n.lineno, ast.unparse(n)))
        if isinstance(n, ast.Call) and isinstance(n.func, ast.Name) and n.func.id == "id" \
                and n.args and mentions(n.args[0]):
            ident.append("line %d: %s" % (n.lineno, ast.unparse(n)))
        if isinstance(n, ast.Call) and mentions(n):
            f = ast.unparse(n.func)
            if f in (str(param) + ".tobytes", str(param) + ".tolist", "np.array_equal",
                     "np.array_equiv", "hash", "tuple") and (f.startswith(str(param)) or
                                                             any(mentions(a) for a in n.args)):
                content.append("line %d: %s" % (n.lineno, ast.unparse(n)[:60]))
    if memo:
        # functools caches hash their arguments: an ndarray is refused, a list/tuple of floats is
        # keyed by value, any other object by identity -- not decidable here
        raise Untranslatable("%s:%s is memoised (%s) on caller-owned arguments"
                             % (rel, qual, ", ".join(memo)))
    if ident:
        kind = "identity"
    elif not stores:
        kind = "none"
    elif content:
        kind = "content"
    else:
        raise Untranslatable("%s:%s assigns %s; cannot read how `%s` is recognised again"
                             % (rel, qual, ", ".join(stores), param))
    return (rel, qual, param or "-", fn.lineno, kind, stores, ident + content)


@fragment("CacheKeys")
def frag_cachekeys(src):
    out = [C20_TYPES]
    msites, closures, public = _c20_memo_sites(src)
    if not msites:
        raise Untranslatable("no memoised method found in " + ", ".join(C20_MEMO_FILES))
    rows = []
    for (cls, m, line, cached, kp, ka, reads, calls, pl) in msites:
        rd = _llist(["⟨%s, .%s⟩" % (_lstr(a), k) for a, k in reads])
        rows.append("  { cls := %s, method := %s, line := %d, cached := %s,\n"
                    "    keyParams := %s, keyAttrs := %s,\n    reads := %s,\n    calls := %s, "
                    "placement := .%s }"
                    % (_lstr(cls), _lstr(m), line, "true" if cached else "false",
                       _llist(map(_lstr, kp)), _llist(map(_lstr, ka)), rd, _llist(map(_lstr, calls)), pl))
    out.append("/-- public and memoised methods of the classes that memoise "
               "(%s) -/\ndef memoSites : List MemoSite := [\n%s\n]\n"
               % (", ".join(C20_MEMO_FILES), ",\n".join(rows)))
    out.append("/-- attributes of these classes a user can assign (instance attributes without a "
               "leading underscore, and the settable properties of BaseAPIClass) -/\n"
               "def publicAttrs : List String := %s\n" % _llist(map(_lstr, public)))
    out.append("/-- lambdas stored on instances by `__init__` (class, attribute, class whose "
               "`__init__` creates it, line) -/\ndef storedClosures : List (String × String × String × Nat) := %s\n"
               % _llist("(%s, %s, %s, %d)" % (_lstr(c), _lstr(a), _lstr(o), l)
                        for c, a, o, l in closures))
    crow = ["  { cls := %s, method := %s, line := %d, kind := .%s }" % (_lstr(c), _lstr(m), l, k)
            for c, m, l, k in _c20_copy_sites(src)]
    out.append("/-- how `Bath` takes and hands out its correlations object -/\n"
               "def copySites : List CopySite := [\n%s\n]\n" % ",\n".join(crow))
    asites, notes = _c20_array_sites(src)
    arow = ["  { file := %s, func := %s, param := %s, line := %d, rank := %d,\n    ops := %s }"
            % (_lstr(f), _lstr(q), _lstr(p), l, r, _llist(ops)) for f, q, p, l, r, ops in asites]
    out.append("/-- what the anchored code does with user arrays -/\n"
               "def arraySites : List ArraySite := [\n%s\n]\n" % ",\n".join(arow))
    srow = []
    for rel, qual, param in C20_ARG_ENTRIES:
        r, q, pm, line, kind, stores, why = _c20_arg_store(src, rel, qual, param)
        srow.append("  { file := %s, func := %s, param := %s, line := %d, kind := .%s, stores := %s }"
                    % (_lstr(r), _lstr(q), _lstr(pm), line, kind, _llist(map(_lstr, stores))))
        notes += ["%s:%s %s" % (r, q, w) for w in why]
    out.append("/-- what the parameterised system and the gradient functions keep from one call to "
               "the next -/\ndef argStores : List ArgStore := [\n%s\n]\n" % ",\n".join(srow))
    drow = ["  { file := %s, func := %s, attr := %s, sources := %s, line := %d, guard := .%s }"
            % (_lstr(r), _lstr(q), _lstr(a), _llist(map(_lstr, u)), l, g)
            for r, q, a, u, l, g in _c20_derived_stores(src)]
    out.append("/-- attributes a (re-)initialisation derives from caller-owned mutable objects -/\n"
               "def derivedStores : List DerivedStore := [\n%s\n]\n" % ",\n".join(drow))
    grow = ["  { file := %s, func := %s, attr := %s, line := %d, used := %s, keyedOn := %s }"
            % (_lstr(r), _lstr(q), _lstr(a), l, _llist(map(_lstr, u)), _llist(map(_lstr, k)))
            for r, q, a, l, u, k in _c20_getter_stores(src)]
    out.append("/-- attributes written by getters of Control / ChainControl -/\n"
               "def getterStores : List GetterStore := [%s]\n"
               % (("\n" + ",\n".join(grow) + "\n") if grow else ""))
    rrow = ["  { file := %s, func := %s, line := %d, kind := .%s }" % (_lstr(r), _lstr(q), l, k)
            for r, q, l, k in _c20_return_sites(src)]
    out.append("/-- where the arrays returned by the public operator helpers come from -/\n"
               "def returnSites : List ReturnSite := [\n%s\n]\n" % ",\n".join(rrow))
    if notes:
        out.append("/- notes\n%s\n-/\n" % "\n".join("  " + n for n in notes))
    return "\n".join(out)


# ---------------------------------------------------------------------------
# InfluenceArgs (C01):  what influence_matrix asks of correlation_2d_integral and
# the formula of its entries
# ---------------------------------------------------------------------------

class VecExpr:
    """numpy vector/matrix expression of influence_matrix -> Lean term over a ring K.
    Vectors op_m/op_p are functions of an index; np.outer(x, y)[e, l] = x[e] * y[l]."""

    def __init__(self):
        pass

    def tr(self, e, idx):
        """idx: name of the index variable for vector-valued sub-expressions
        (None inside a matrix-valued expression before np.outer splits it)."""
        if isinstance(e, ast.Name):
            if e.id == "op_m":
                return "(Om %s)" % idx
            if e.id == "op_p":
                return "(Op %s)" % idx
            raise Untranslatable("name %s in influence formula" % e.id)
        if isinstance(e, ast.Attribute):
            ch = attr_chain(e)
            if ch == ["eta_dk", "real"]:
                return "reEta"
            if ch == ["eta_dk", "imag"]:
                return "imEta"
            raise Untranslatable("attribute in influence formula")
        if isinstance(e, ast.Constant):
            if e.value == 1j:
                return "iUnit"
            raise Untranslatable("constant %r in influence formula" % (e.value,))
        if isinstance(e, ast.UnaryOp) and isinstance(e.op, ast.USub):
            return "(-%s)" % self.tr(e.operand, idx)
        if isinstance(e, ast.BinOp) and isinstance(e.op, (ast.Add, ast.Mult, ast.Sub)):
            sym = {ast.Add: "+", ast.Mult: "*", ast.Sub: "-"}[type(e.op)]
            return "(%s %s %s)" % (self.tr(e.left, idx), sym, self.tr(e.right, idx))
        if isinstance(e, ast.Call):
            ch = attr_chain(e.func)
            if ch == ["np", "exp"]:
                return "(E %s)" % self.tr(e.args[0], idx)
            if ch == ["np", "outer"]:
                return "(%s * %s)" % (self.tr(e.args[0], "e"), self.tr(e.args[1], "l"))
            if ch == ["np", "diag"]:
                return self.tr(e.args[0], idx)
        raise Untranslatable("influence formula: " + ast.dump(e)[:120])


@fragment("InfluenceArgs")
def frag_influence_args(src):
    fn = src.function("oqupy/tempo.py", "influence_matrix")
    out = []
    ty = {"dt": "Flt", "dkmax": "Int", "dk": "Int", "add_correlation_time": "Flt"}
    # the if / elif / else on dk
    top = [s for s in fn.body if isinstance(s, ast.If)]
    if not top:
        raise Untranslatable("influence_matrix: no branch on dk")
    br = top[0]
    def cond(node):
        return ast.unparse(node.test)
    if cond(br) != "dk == 0" or len(br.orelse) != 1 or not isinstance(br.orelse[0], ast.If) \
            or cond(br.orelse[0]) != "dk < 0":
        raise Untranslatable("influence_matrix: expected `if dk == 0 / elif dk < 0 / else`")
    zero, neg, pos = br.body, br.orelse[0].body, br.orelse[0].orelse

    def assigns(block):
        d = {}
        for st in block:
            if isinstance(st, ast.Assign) and len(st.targets) == 1 and isinstance(st.targets[0], ast.Name):
                d[st.targets[0].id] = st.value
        return d

    for tag, block in (("zero", zero), ("pos", pos)):
        d = assigns(block)
        if set(d) != {"time_1", "time_2", "shape"}:
            raise Untranslatable("influence_matrix[%s]: unexpected assignments %s" % (tag, sorted(d)))
        if not (isinstance(d["time_2"], ast.Constant) and d["time_2"].value is None):
            raise Untranslatable("influence_matrix[%s]: time_2 is not None" % tag)
        tr = FnTranslator(ty)
        t1 = tr.to_flt(tr.expr(d["time_1"]))
        out.append(emit_def("infl_%s_time1" % tag, tr, t1, "Flt", ["dt", "dk"],
                            "influence_matrix, branch dk %s 0: time_1 = %s" %
                            ("==" if tag == "zero" else ">", ast.unparse(d["time_1"]))))
        out.append('def infl_%s_shape : String := "%s"\n' % (tag, d["shape"].value))
    # dk < 0
    d = assigns(neg)
    if set(d) != {"time_1", "shape"}:
        raise Untranslatable("influence_matrix[dk<0]: unexpected assignments %s" % sorted(d))
    inner = [s for s in neg if isinstance(s, ast.If)]
    if len(inner) != 1 or ast.unparse(inner[0].test) != "parameters.add_correlation_time is not None":
        raise Untranslatable("influence_matrix[dk<0]: expected test on add_correlation_time")
    d2 = assigns(inner[0].body)
    if set(d2) != {"time_2"}:
        raise Untranslatable("influence_matrix[dk<0]: time_2 assignment")
    els = inner[0].orelse
    if not (len(els) == 1 and isinstance(els[0], ast.Return) and isinstance(els[0].value, ast.Constant)
            and els[0].value.value is None):
        raise Untranslatable("influence_matrix[dk<0]: else branch is not `return None`")
    tr = FnTranslator(ty)
    out.append(emit_def("infl_neg_time1", tr, tr.to_flt(tr.expr(d["time_1"])), "Flt",
                        ["dt", "dkmax", "dk"], "influence_matrix, dk < 0: time_1 = " + ast.unparse(d["time_1"])))
    tr = FnTranslator(ty)
    out.append(emit_def("infl_neg_time2", tr, tr.to_flt(tr.expr(d2["time_2"])), "Flt",
                        ["dt", "dkmax", "dk", "add_correlation_time"],
                        "influence_matrix, dk < 0: time_2 = " + ast.unparse(d2["time_2"])))
    out.append('def infl_neg_shape : String := "%s"\n' % d["shape"].value)
    out.append("/-- dk < 0 without an additional correlation time: `return None` -/\n"
               "def infl_neg_none_without_add : Bool := true\n")
    # the call of correlation_2d_integral
    calls = [n for n in ast.walk(fn) if isinstance(n, ast.Call)
             and attr_chain(n.func) == ["correlations", "correlation_2d_integral"]]
    if len(calls) != 1:
        raise Untranslatable("influence_matrix: expected one correlation_2d_integral call")
    kw = {k.arg: ast.unparse(k.value) for k in calls[0].keywords}
    if kw != {"delta": "dt", "time_1": "time_1", "time_2": "time_2", "shape": "shape",
              "epsrel": "parameters.epsrel"}:
        raise Untranslatable("influence_matrix: correlation_2d_integral keywords %r" % kw)
    # the entry formulas
    second = [s for s in fn.body if isinstance(s, ast.If)][1]
    if ast.unparse(second.test) != "dk == 0":
        raise Untranslatable("influence_matrix: second branch is not on dk == 0")
    a0, a1 = assigns(second.body), assigns(second.orelse)
    ve = VecExpr()
    sig = "{K : Type} [CommRing K] (E : K → K) (reEta imEta iUnit : K) (Om Op : ℕ → K)"
    out.append("/-- dk = 0: infl = %s -/\ndef infl_entry_diag %s (a : ℕ) : K :=\n  %s\n"
               % (ast.unparse(a0["infl"]), sig, ve.tr(a0["infl"], "a")))
    out.append("/-- dk ≠ 0: infl = %s  (entry [e, l]) -/\ndef infl_entry %s (e l : ℕ) : K :=\n  %s\n"
               % (ast.unparse(a1["infl"]), sig, ve.tr(a1["infl"], None)))
    # tcut <-> dkmax conversion of TempoParameters (_parameter_memory_input_parse)
    pm = src.function("oqupy/tempo.py", "_parameter_memory_input_parse")
    hits = [h for h in src.assignment(pm, "tmp_dkmax") if not isinstance(h.value, ast.Name)
            and not (isinstance(h.value, ast.Constant))]
    hits = [h for h in hits if "tcut" in ast.unparse(h.value)]
    if len(hits) != 1:
        raise Untranslatable("_parameter_memory_input_parse: expected one tcut -> dkmax expression")
    tr = FnTranslator({"tcut": "Flt", "dt": "Flt"})
    t = tr.expr(hits[0].value)
    if t[1] != "Int":
        raise Untranslatable("_parameter_memory_input_parse: tcut -> dkmax is not an int")
    out.append(emit_def("tcut_to_dkmax", tr, t[0], "Int", ["tcut", "dt"],
                        "oqupy/tempo.py:%d  _parameter_memory_input_parse: tmp_dkmax = %s"
                        % (hits[0].lineno, ast.unparse(hits[0].value))))
    hits = [h for h in src.assignment(pm, "tmp_tcut") if "dkmax" in ast.unparse(h.value)]
    if len(hits) != 1:
        raise Untranslatable("_parameter_memory_input_parse: expected one dkmax -> tcut expression")
    tr = FnTranslator({"dkmax": "Int", "dt": "Flt"})
    out.append(emit_def("dkmax_to_tcut", tr, tr.to_flt(tr.expr(hits[0].value)), "Flt", ["dkmax", "dt"],
                        "oqupy/tempo.py:%d  _parameter_memory_input_parse: tmp_tcut = %s"
                        % (hits[0].lineno, ast.unparse(hits[0].value))))
    # the names bound to op_p / op_m
    names = assigns(fn.body)
    if ast.unparse(names.get("op_p")) != "coupling_acomm" or ast.unparse(names.get("op_m")) != "coupling_comm":
        raise Untranslatable("influence_matrix: op_p/op_m are not coupling_acomm/coupling_comm")
    return "\n".join(out)


# ---------------------------------------------------------------------------
# FileFlags  (C16, C17): process-tensor files -- flag tests, open modes, `_removeable`,
# statement order of export()/_create_file()/remove(), keys read by _read_file,
# SimpleProcessTensor.set_initial_tensor as written, PtTempo's choice of PT class.
# The generated file imports Model/PTFile (types only) and ends in `flags : Flags`.
# ---------------------------------------------------------------------------

FF_REL = "oqupy/process_tensor.py"
FF_ATTRS = {"oqupy_version": "AttrName.version", "name": "AttrName.name",
            "description": "AttrName.description", "writing": "AttrName.writing"}
FF_ARRS = {"hs_dim": "ArrName.hsDim", "dt": "ArrName.dt",
           "transform_in": "ArrName.transformIn", "transform_out": "ArrName.transformOut"}
FF_VLEN = {"initial_tensor_data": ("VName.init", True), "initial_tensor_shape": ("VName.init", False),
           "mpo_tensors_data": ("VName.mpo", True), "mpo_tensors_shape": ("VName.mpo", False),
           "cap_tensors_data": ("VName.cap", True), "cap_tensors_shape": ("VName.cap", False)}


def _ff_body(fn):
    """statements of a function without the docstring"""
    body = list(fn.body)
    if body and isinstance(body[0], ast.Expr) and isinstance(body[0].value, ast.Constant) \
            and isinstance(body[0].value.value, str):
        body = body[1:]
    return body


def _ff_lean_str(s):
    if not isinstance(s, str) or any(c in s for c in '"\\\n'):
        raise Untranslatable("string constant %r" % (s,))
    return '"%s"' % s


FF_ATTR_ALIASES = set()      # local names bound to (a copy of) self._f.attrs in the function at hand


def _ff_find_attr_aliases(fn):
    FF_ATTR_ALIASES.clear()
    for n in ast.walk(fn):
        if isinstance(n, ast.Assign) and len(n.targets) == 1 and isinstance(n.targets[0], ast.Name):
            u = ast.unparse(n.value)
            if u in ("self._f.attrs", "dict(self._f.attrs)"):
                FF_ATTR_ALIASES.add(n.targets[0].id)


def _ff_is_attr_sub(node, key=None):
    """`self._f.attrs[<const>]` (or the same through a local alias)"""
    if isinstance(node, ast.Subscript) and (
            attr_chain(node.value) == ["self", "_f", "attrs"] or
            (isinstance(node.value, ast.Name) and node.value.id in FF_ATTR_ALIASES)) \
            and isinstance(node.slice, ast.Constant) and isinstance(node.slice.value, str):
        return key is None or node.slice.value == key
    return False


def _ff_pyval(e, atoms):
    """Python expression over truth values -> Lean term of type PyVal.
    atoms: list of (predicate(node) -> bool, lean term)."""
    for pred, term in atoms:
        if pred(e):
            return term
    if isinstance(e, ast.Constant) and (isinstance(e.value, bool) or e.value is None):
        return {True: "PyVal.pyTrue", False: "PyVal.pyFalse", None: "PyVal.pyNone"}[e.value]
    if isinstance(e, ast.Compare):
        if len(e.ops) != 1:
            raise Untranslatable("chained comparison in flag test")
        fn = {ast.Is: "PyVal.pyIs", ast.IsNot: "PyVal.pyIsNot", ast.Eq: "PyVal.pyEq",
              ast.NotEq: "PyVal.pyNe"}.get(type(e.ops[0]))
        if fn is None:
            raise Untranslatable("comparison %s in flag test" % type(e.ops[0]).__name__)
        return "(%s %s %s)" % (fn, _ff_pyval(e.left, atoms), _ff_pyval(e.comparators[0], atoms))
    if isinstance(e, ast.BoolOp):
        fn = "PyVal.pyAnd" if isinstance(e.op, ast.And) else "PyVal.pyOr"
        parts = [_ff_pyval(v, atoms) for v in e.values]
        out = parts[-1]
        for p in reversed(parts[:-1]):
            out = "(%s %s %s)" % (fn, p, out)
        return out
    if isinstance(e, ast.UnaryOp) and isinstance(e.op, ast.Not):
        return "(PyVal.pyNot %s)" % _ff_pyval(e.operand, atoms)
    if isinstance(e, ast.Call) and attr_chain(e.func) == ["bool"] and len(e.args) == 1 \
            and not e.keywords:
        return "(PyVal.pyBool %s)" % _ff_pyval(e.args[0], atoms)
    raise Untranslatable("flag test %s" % ast.unparse(e))


def _ff_mentions_writing(node):
    return any(_ff_is_attr_sub(n, "writing") for n in ast.walk(node))


def _ff_read_file(src, out):
    fn = src.function(FF_REL, "FileProcessTensor._read_file")
    # (1) the open mode
    opens = [n for n in ast.walk(fn) if isinstance(n, ast.Call)
             and attr_chain(n.func) == ["h5py", "File"]]
    if len(opens) != 1 or len(opens[0].args) != 2 or opens[0].keywords or \
            not isinstance(opens[0].args[1], ast.Constant):
        raise Untranslatable("_read_file: expected exactly one h5py.File(filename, <const>)")
    out.append("/-- %s:%d  _read_file: %s -/\ndef readMode : String := %s\n"
               % (FF_REL, opens[0].lineno, ast.unparse(opens[0]),
                  _ff_lean_str(opens[0].args[1].value)))
    # (2) the test that triggers the corruption warning
    _ff_find_attr_aliases(fn)
    ifs = [n for n in ast.walk(fn) if isinstance(n, ast.If) and _ff_mentions_writing(n.test)]
    if len(ifs) != 1:
        raise Untranslatable("_read_file: expected exactly one `if` testing attrs['writing'], "
                             "found %d" % len(ifs))
    node = ifs[0]
    if node.orelse or len(node.body) != 1 or not isinstance(node.body[0], ast.Expr) or \
            not isinstance(node.body[0].value, ast.Call) or \
            attr_chain(node.body[0].value.func) != ["warnings", "warn"]:
        raise Untranslatable("_read_file: the test on attrs['writing'] does not guard exactly "
                             "one warnings.warn(...)")
    term = _ff_pyval(node.test, [(lambda n: _ff_is_attr_sub(n, "writing"), "v")])
    out.append("/-- %s:%d  _read_file: `if %s: warnings.warn(...)` -/\n"
               "def readWarn (v : PyVal) : Bool := PyVal.truthy %s\n"
               % (FF_REL, node.lineno, ast.unparse(node.test), term))
    # is that `if` a statement of the function body itself (reached on every path that gets
    # past the attribute reads), or does it hang under another condition (elif/else/if/try)?
    top = any(st is node for st in fn.body)
    out.append("/-- %s:%d  _read_file: the test on attrs['writing'] is a top-level statement "
               "(not an elif/else branch or otherwise nested under another condition) -/\n"
               "def readWarnUnconditional : Bool := %s\n"
               % (FF_REL, node.lineno, "true" if top else "false"))

    # (3) keys accessed outside a try/except KeyError
    attrs, arrs, vls = [], [], []

    def catches_keyerror(t):
        for h in t.handlers:
            names = [h.type] if not isinstance(h.type, ast.Tuple) else list(h.type.elts)
            if h.type is None or any(isinstance(n, ast.Name) and n.id in ("KeyError", "Exception", "LookupError")
                                     for n in names):
                return True
        return False

    def visit(n):
        if isinstance(n, ast.Try) and catches_keyerror(n):
            for part in list(n.orelse) + list(n.finalbody):
                visit(part)
            return
        if isinstance(n, ast.Subscript) and isinstance(n.ctx, ast.Load) and \
                isinstance(n.slice, ast.Constant) and isinstance(n.slice.value, str):
            ch = attr_chain(n.value)
            key = n.slice.value
            if ch == ["self", "_f", "attrs"] or (isinstance(n.value, ast.Name) and
                                                 n.value.id in FF_ATTR_ALIASES):
                if key not in FF_ATTRS:
                    raise Untranslatable("_read_file reads unknown attribute %r" % key)
                if FF_ATTRS[key] not in attrs:
                    attrs.append(FF_ATTRS[key])
            elif ch == ["self", "_f"]:
                if key in FF_ARRS:
                    if FF_ARRS[key] not in arrs:
                        arrs.append(FF_ARRS[key])
                elif key in FF_VLEN:
                    t = "(%s, %s)" % (FF_VLEN[key][0], "true" if FF_VLEN[key][1] else "false")
                    if t not in vls:
                        vls.append(t)
                else:
                    raise Untranslatable("_read_file reads unknown dataset %r" % key)
        for ch_ in ast.iter_child_nodes(n):
            visit(ch_)

    for s in fn.body:
        visit(s)
    out.append("/-- %s:%d  _read_file: attributes / datasets accessed outside a `try … except "
               "KeyError` (a missing one makes the import fail) -/\n"
               "def readAttrs : List AttrName := [%s]\n"
               "def readArrs : List ArrName := [%s]\n"
               "def readVs : List (VName × Bool) := [%s]\n"
               % (FF_REL, fn.lineno, ", ".join(attrs), ", ".join(arrs), ", ".join(vls)))


def _ff_close(src, out):
    fn = src.function(FF_REL, "FileProcessTensor.close")
    body = _ff_body(fn)
    ok = len(body) == 1 and isinstance(body[0], ast.If) and not body[0].orelse and \
        ast.unparse(body[0].test) == "self._f is not None"
    if not ok:
        raise Untranslatable("close(): expected `if self._f is not None:` as the only statement")
    inner = body[0].body
    if len(inner) != 2 or not isinstance(inner[0], ast.If) or inner[0].orelse or \
            not isinstance(inner[1], ast.Expr) or ast.unparse(inner[1]) != "self._f.close()":
        raise Untranslatable("close(): expected `if <test>: attrs['writing'] = <const>` followed "
                             "by `self._f.close()`")
    g = inner[0]
    if len(g.body) != 1 or not isinstance(g.body[0], ast.Assign) or len(g.body[0].targets) != 1 or \
            not _ff_is_attr_sub(g.body[0].targets[0], "writing") or \
            not isinstance(g.body[0].value, ast.Constant) or \
            not isinstance(g.body[0].value.value, bool):
        raise Untranslatable("close(): the guarded statement is not attrs['writing'] = <bool>")
    FF_ATTR_ALIASES.clear()
    extra = []

    def unknown(n):
        # any other operand of an and/or (a helper call, a look at the datasets, ...):
        # translated as True, and reported through closeResetPure
        if isinstance(n, (ast.Call, ast.Attribute, ast.Name)) and not _ff_is_attr_sub(n, "writing") \
                and attr_chain(n) != ["self", "_write"] and \
                not (isinstance(n, ast.Call) and attr_chain(n.func) == ["bool"]):
            extra.append(ast.unparse(n))
            return True
        return False
    atoms = [(lambda n: _ff_is_attr_sub(n, "writing"), "v"),
             (lambda n: attr_chain(n) == ["self", "_write"], "(PyVal.ofBool write)"),
             (unknown, "PyVal.pyTrue")]
    term = _ff_pyval(g.test, atoms)
    out.append("/-- %s:%d  close(): `if %s: %s` then `self._f.close()` -/\n"
               "def closeReset (write : Bool) (v : PyVal) : Bool := PyVal.truthy %s\n"
               "def closeValue : Bool := %s\n"
               % (FF_REL, g.lineno, ast.unparse(g.test), ast.unparse(g.body[0]), term,
                  "true" if g.body[0].value.value else "false"))
    out.append("/-- close(): the guard depends on nothing but `self._write` and the flag itself%s -/\n"
               "def closeResetPure : Bool := %s\n"
               % ("; other operands (taken as True above): " + ", ".join(extra) if extra else "",
                  "false" if extra else "true"))


def _ff_const_bool(node):
    if isinstance(node, ast.Constant) and isinstance(node.value, bool):
        return "true" if node.value else "false"
    return None


def _ff_mode_chain(node, var):
    """if var == "a": ... elif var == "b": ... else: raise  ->  [(string, body)], has_raise"""
    out = []
    while True:
        if not isinstance(node, ast.If):
            raise Untranslatable("mode chain: expected if/elif")
        t = node.test
        if not (isinstance(t, ast.Compare) and len(t.ops) == 1 and isinstance(t.ops[0], ast.Eq)
                and isinstance(t.left, ast.Name) and t.left.id == var
                and isinstance(t.comparators[0], ast.Constant)
                and isinstance(t.comparators[0].value, str)):
            raise Untranslatable("mode chain: test %s" % ast.unparse(t))
        out.append((t.comparators[0].value, node.body))
        if len(node.orelse) == 1 and isinstance(node.orelse[0], ast.If):
            node = node.orelse[0]
            continue
        if len(node.orelse) == 1 and isinstance(node.orelse[0], ast.Raise):
            return out
        raise Untranslatable("mode chain: the final else does not raise")


def _ff_flag_expr(e, table):
    """small boolean expressions over named flags -> Lean Bool term"""
    u = ast.unparse(e)
    if u in table:
        return table[u]
    c = _ff_const_bool(e)
    if c is not None:
        return c
    if isinstance(e, ast.UnaryOp) and isinstance(e.op, ast.Not):
        return "(!%s)" % _ff_flag_expr(e.operand, table)
    if isinstance(e, ast.BoolOp):
        sym = " && " if isinstance(e.op, ast.And) else " || "
        return "(" + sym.join(_ff_flag_expr(v, table) for v in e.values) + ")"
    raise Untranslatable("boolean expression %s" % u)


class _FFPath:
    """symbolic execution of straight-line/if code for ONE assigned attribute"""
    RAISE = object()
    UNSET = "«unassigned»"

    def final(self, stmts, what, old=None):
        res = self.run(stmts, None)
        if res is None and old is not None:
            res = self.UNSET
        if old is not None and res is not self.RAISE:
            res = res.replace(self.UNSET, old)
        if res is None or res is self.RAISE or self.UNSET in res:
            raise Untranslatable("%s: %s is not assigned on every path" % (what, ".".join(self.target)))
        return res

    def __init__(self, target, value_of, test_of):
        self.target, self.value_of, self.test_of = target, value_of, test_of

    def run(self, stmts, prev):
        for s in stmts:
            if prev is self.RAISE:
                break
            if isinstance(s, ast.Raise) or isinstance(s, ast.Return):
                return self.RAISE if isinstance(s, ast.Raise) else prev
            if isinstance(s, ast.Assign) and len(s.targets) == 1 and \
                    attr_chain(s.targets[0]) == self.target:
                prev = self.value_of(s.value)
            elif isinstance(s, ast.If):
                touched = any(isinstance(n, ast.Assign) and len(n.targets) == 1 and
                              attr_chain(n.targets[0]) == self.target for n in ast.walk(s))
                raises = any(isinstance(n, ast.Raise) for n in ast.walk(s))
                if not touched and not raises:
                    continue
                a = self.run(s.body, prev)
                b = self.run(s.orelse, prev)
                if a is self.RAISE and b is self.RAISE:
                    prev = self.RAISE
                elif a is self.RAISE:
                    prev = b
                elif b is self.RAISE:
                    prev = a
                elif a is b or a == b:
                    prev = a
                else:
                    prev = "(if %s then %s else %s)" % (
                        self.test_of(s.test), self.UNSET if a is None else a,
                        self.UNSET if b is None else b)
            elif any(isinstance(n, ast.Assign) and any(attr_chain(t) == self.target for t in n.targets)
                     for n in ast.walk(s)):
                raise Untranslatable("%s assigned inside %s" % (".".join(self.target),
                                                                type(s).__name__))
        return prev


def _ff_init(src, out):
    fn = src.function(FF_REL, "FileProcessTensor.__init__")
    body = _ff_body(fn)
    if not body or not isinstance(body[0], ast.If):
        raise Untranslatable("FileProcessTensor.__init__: does not start with the mode chain")
    chain = _ff_mode_chain(body[0], "mode")
    rows = []
    for key, stmts in chain:
        vals = {}
        for s in stmts:
            if not (isinstance(s, ast.Assign) and len(s.targets) == 1 and
                    attr_chain(s.targets[0]) in (["self", "_write"], ["self", "_overwrite"])
                    and _ff_const_bool(s.value) is not None):
                raise Untranslatable("__init__: mode branch %r: %s" % (key, ast.unparse(s)))
            vals[attr_chain(s.targets[0])[1]] = _ff_const_bool(s.value)
        if set(vals) != {"_write", "_overwrite"}:
            raise Untranslatable("__init__: mode branch %r does not set both flags" % key)
        rows.append((key, vals["_write"], vals["_overwrite"]))
    term = "none"
    for key, w, o in reversed(rows):
        term = "if mode == %s then some (%s, %s) else %s" % (_ff_lean_str(key), w, o, term)
    out.append("/-- %s:%d  FileProcessTensor.__init__: mode ↦ (_write, _overwrite); any other "
               "mode raises ValueError -/\ndef modeFlags (mode : String) : Option (Bool × Bool) :=\n  %s\n"
               % (FF_REL, body[0].lineno, term))
    # `_write`/`_overwrite` must not be reassigned later
    for n in ast.walk(ast.Module(body=body[1:], type_ignores=[])):
        if isinstance(n, ast.Assign) and any(attr_chain(t) in (["self", "_write"], ["self", "_overwrite"])
                                             for t in n.targets):
            raise Untranslatable("__init__: _write/_overwrite reassigned after the mode chain")
    table = {"self._write": "write", "self._overwrite": "overwrite",
             "filename is None": "(!hasFilename)", "filename is not None": "hasFilename"}
    p = _FFPath(["self", "_removeable"], lambda v: _ff_flag_expr(v, table),
                lambda t: _ff_flag_expr(t, table))
    res = p.final(body[1:], "FileProcessTensor.__init__")
    out.append("/-- %s:%d  FileProcessTensor.__init__: the value assigned to `_removeable` on each "
               "path -/\ndef removeable (write overwrite hasFilename : Bool) : Bool :=\n  %s\n"
               % (FF_REL, fn.lineno, res))
    # other assignments of _removeable anywhere else in the class?
    cls = src.function(FF_REL, "FileProcessTensor")
    for m in cls.body:
        if isinstance(m, ast.FunctionDef) and m.name != "__init__":
            for n in ast.walk(m):
                if isinstance(n, ast.Assign) and any(attr_chain(t) == ["self", "_removeable"]
                                                     for t in n.targets):
                    raise Untranslatable("_removeable assigned in %s" % m.name)


def _ff_remove(src, out):
    fn = src.function(FF_REL, "FileProcessTensor.remove")

    def only(stmts, what):
        if not stmts:
            return "false"
        if len(stmts) == 1 and what(stmts[0]):
            return "true"
        raise Untranslatable("remove(): branch %s" % ast.unparse(stmts[0]))

    def is_delete(x):
        return ast.unparse(x) == "os.remove(self._filename)"

    def is_raise(x):
        return isinstance(x, ast.Raise)

    def one(s):
        u = ast.unparse(s)
        if u == "self.close()":
            return ["RemoveStep.close"]
        if is_delete(s):
            return ["RemoveStep.delete"]
        if isinstance(s, ast.If) and ast.unparse(s.test) == "self._removeable":
            return ["RemoveStep.guarded %s %s" % (only(s.body, is_delete), only(s.orelse, is_raise))]
        if isinstance(s, ast.If) and ast.unparse(s.test) == "not self._removeable":
            return ["RemoveStep.guarded %s %s" % (only(s.orelse, is_delete), only(s.body, is_raise))]
        if isinstance(s, ast.If) and not s.orelse and ast.unparse(s.test) in (
                "self._f", "self._f is not None and self._f", "bool(self._f)"):
            inner = []
            for x in s.body:
                inner.extend(one(x))
            return ["(RemoveStep.ifOpen (%s))" % t.strip("()") if not t.startswith("(RemoveStep.ifOpen")
                    else "(RemoveStep.ifOpen %s)" % t for t in inner]
        raise Untranslatable("remove(): statement %s" % u)
    steps = []
    for s in _ff_body(fn):
        steps.extend(one(s))
    out.append("/-- %s:%d  FileProcessTensor.remove: statements in order -/\n"
               "def removeSteps : List RemoveStep := [%s]\n"
               % (FF_REL, fn.lineno, ", ".join(steps)))


def _ff_cond_over_overwrite(e, others=None):
    """boolean expression over `overwrite`; every other operand (a helper call, a file
    test, ...) becomes `other k`, one index per distinct operand (collected in `others`)"""
    if others is None:
        others = []
    if isinstance(e, ast.Name) and e.id == "overwrite":
        return "overwrite"
    c = _ff_const_bool(e)
    if c is not None:
        return c
    if isinstance(e, ast.UnaryOp) and isinstance(e.op, ast.Not):
        return "(!%s)" % _ff_cond_over_overwrite(e.operand, others)
    if isinstance(e, ast.BoolOp):
        sym = " && " if isinstance(e.op, ast.And) else " || "
        return "(" + sym.join(_ff_cond_over_overwrite(v, others) for v in e.values) + ")"
    u = ast.unparse(e)
    if u not in others:
        others.append(u)
    return "(other %d)" % others.index(u)


def _ff_mode_by_overwrite(stmt, what, allow_other=False):
    """`if <cond>: mode = "a" else: mode = "b"` -> Lean term over `overwrite` (and, if allowed,
    `other` standing for any operand of the condition that is not the caller's `overwrite`)"""
    ok = isinstance(stmt, ast.If) and len(stmt.body) == 1 and len(stmt.orelse) == 1
    if ok:
        others = []
        cond = _ff_cond_over_overwrite(stmt.test, others)
        if others and not allow_other:
            ok = False
        _ff_mode_by_overwrite.others = others
    if ok:
        vals = []
        for s in (stmt.body[0], stmt.orelse[0]):
            if isinstance(s, ast.Assign) and len(s.targets) == 1 and isinstance(s.targets[0], ast.Name) \
                    and s.targets[0].id == "mode" and isinstance(s.value, ast.Constant):
                vals.append(_ff_lean_str(s.value.value))
        if len(vals) == 2:
            return "if %s then %s else %s" % (cond, vals[0], vals[1])
    raise Untranslatable("%s: expected `if overwrite: mode = … else: mode = …`" % what)


def _ff_ctor_passes_mode(call, what):
    if not (isinstance(call, ast.Call) and attr_chain(call.func) == ["FileProcessTensor"]):
        raise Untranslatable("%s: expected FileProcessTensor(...)" % what)
    kw = {k.arg: ast.unparse(k.value) for k in call.keywords}
    if call.args or kw.get("mode") != "mode" or kw.get("filename") != "filename":
        raise Untranslatable("%s: FileProcessTensor(...) is not called with mode=mode, "
                             "filename=filename" % what)


def _ff_export(src, out):
    fn = src.function(FF_REL, "SimpleProcessTensor.export")
    body = _ff_body(fn)
    if not body:
        raise Untranslatable("export(): empty")
    out.append("/-- %s:%d  SimpleProcessTensor.export: overwrite ↦ mode -/\n"
               "def exportMode (overwrite : Bool) : String := %s\n"
               % (FF_REL, body[0].lineno, _ff_mode_by_overwrite(body[0], "export()")))
    steps = []
    unwind = []

    def one(s):
        u = ast.unparse(s)
        if isinstance(s, ast.Assign) and ast.unparse(s.targets[0]) == "pt_file":
            _ff_ctor_passes_mode(s.value, "export()")
            kw = {k.arg: ast.unparse(k.value) for k in s.value.keywords}
            want = {"hilbert_space_dimension": "self._hs_dim", "dt": "self._dt",
                    "transform_in": "self._transform_in", "transform_out": "self._transform_out",
                    "name": "self.name", "description": "self.description"}
            for k, v in want.items():
                if kw.get(k) != v:
                    raise Untranslatable("export(): FileProcessTensor(%s=%s)" % (k, kw.get(k)))
            steps.append("ExportStep.create")
        elif u == "pt_file.set_initial_tensor(self._initial_tensor)":
            steps.append("ExportStep.setInitial")
        elif u == "for step, mpo in enumerate(self._mpo_tensors):\n    pt_file.set_mpo_tensor(step, mpo)":
            steps.append("ExportStep.loopMpo")
        elif u == "for step, cap in enumerate(self._cap_tensors):\n    pt_file.set_cap_tensor(step, cap)":
            steps.append("ExportStep.loopCap")
        elif u == "pt_file.close()":
            steps.append("ExportStep.close")
        elif isinstance(s, ast.Try):
            # normal path: body, else, finally in order; the path of an exception: the
            # close()/remove() calls of the handlers and of the finally block
            if "ExportStep.create" not in steps:
                raise Untranslatable("export(): try statement around the constructor")
            for x in list(s.body) + list(s.orelse):
                one(x)
            for h in s.handlers:
                unwind.extend(_ff_unwind_calls(h.body))
            unwind.extend(_ff_unwind_calls(s.finalbody))
            for x in s.finalbody:
                one(x)
        else:
            raise Untranslatable("export(): statement %s" % u)
    for s in body[1:]:
        one(s)
    out.append("/-- %s:%d  SimpleProcessTensor.export: statements in order (normal path) -/\n"
               "def exportSteps : List ExportStep := [%s]\n"
               % (FF_REL, fn.lineno, ", ".join(steps)))
    out.append("/-- %s:%d  SimpleProcessTensor.export: close()/remove() calls in except/finally "
               "blocks around the tensor writes (run when an exception unwinds) -/\n"
               "def exportUnwind : List UnwindStep := [%s]\n"
               % (FF_REL, fn.lineno, ", ".join(unwind)))


def _ff_unwind_calls(stmts):
    """`<x>.close()` / `<x>.remove()` calls anywhere inside the given handler statements
    (not on the raw h5py handle `self._f`)"""
    found = []
    for st in stmts:
        for n in ast.walk(st):
            if isinstance(n, ast.Call) and isinstance(n.func, ast.Attribute) and \
                    n.func.attr in ("close", "remove") and not n.args and not n.keywords:
                recv = ast.unparse(n.func.value)
                if recv in ("self._f", "os"):
                    continue
                found.append("UnwindStep." + n.func.attr)
    return found


def _ff_handlers_of(fn):
    """unwind calls of every try statement (and `with`-less) inside a function"""
    found = []
    for n in ast.walk(fn):
        if isinstance(n, ast.Try):
            for h in n.handlers:
                found.extend(_ff_unwind_calls(h.body))
            found.extend(_ff_unwind_calls(n.finalbody))
    return found


def _ff_create_file(src, out):
    fn = src.function(FF_REL, "FileProcessTensor._create_file")
    steps = []
    skipped = []
    for s in _ff_body(fn):
        u = ast.unparse(s)
        # open
        if isinstance(s, ast.If) and ast.unparse(s.test) == "self._overwrite":
            modes = []
            for br in (s.body, s.orelse):
                if len(br) == 1 and isinstance(br[0], ast.Assign) and \
                        attr_chain(br[0].targets[0]) == ["self", "_f"] and \
                        isinstance(br[0].value, ast.Call) and \
                        attr_chain(br[0].value.func) == ["h5py", "File"] and \
                        len(br[0].value.args) == 2 and not br[0].value.keywords and \
                        ast.unparse(br[0].value.args[0]) == "filename" and \
                        isinstance(br[0].value.args[1], ast.Constant):
                    modes.append(_ff_lean_str(br[0].value.args[1].value))
            if len(modes) != 2:
                raise Untranslatable("_create_file: open statement %s" % u)
            out.append("/-- %s:%d  _create_file: `_overwrite` ↦ h5py mode -/\n"
                       "def createMode (overwrite : Bool) : String := if overwrite then %s else %s\n"
                       % (FF_REL, s.lineno, modes[0], modes[1]))
            steps.append("CreateStep.openFile")
            continue
        # attribute
        if isinstance(s, ast.Assign) and len(s.targets) == 1 and _ff_is_attr_sub(s.targets[0]):
            key = s.targets[0].slice.value
            if key not in FF_ATTRS:
                raise Untranslatable("_create_file: unknown attribute %r" % key)
            v = ast.unparse(s.value)
            srcs = {"__version__": "AttrSrc.version", "self.name": "AttrSrc.name",
                    "self.description": "AttrSrc.description"}
            if v in srcs:
                steps.append("CreateStep.attr %s %s" % (FF_ATTRS[key], srcs[v]))
            elif _ff_const_bool(s.value) is not None:
                steps.append("CreateStep.attr %s (AttrSrc.const %s)"
                             % (FF_ATTRS[key], _ff_const_bool(s.value)))
            else:
                raise Untranslatable("_create_file: attribute value %s" % v)
            continue
        # local dtype helpers
        if isinstance(s, ast.Assign) and isinstance(s.targets[0], ast.Name) and \
                s.targets[0].id in ("data_type", "shape_type") and \
                isinstance(s.value, ast.Call) and attr_chain(s.value.func) == ["h5py", "vlen_dtype"]:
            skipped.append(u)
            continue

        def ds_call(node):
            if isinstance(node, ast.Call) and attr_chain(node.func) == ["self", "_f", "create_dataset"] \
                    and node.args and isinstance(node.args[0], ast.Constant):
                return node
            return None
        # fixed datasets
        if isinstance(s, ast.Expr) and ds_call(s.value) is not None:
            c = ds_call(s.value)
            name = c.args[0].value
            kw = {k.arg: ast.unparse(k.value) for k in c.keywords}
            if name == "hs_dim" and kw.get("data") == "[self._hs_dim]":
                steps.append("CreateStep.arr ArrName.hsDim")
                continue
            raise Untranslatable("_create_file: dataset %s" % u)
        if isinstance(s, ast.If) and isinstance(s.test, ast.Compare) and \
                isinstance(s.test.ops[0], ast.Is) and ast.unparse(s.test.comparators[0]) == "None":
            attr = ast.unparse(s.test.left)
            want = {"self._dt": ("dt", "[self._dt]"), "self._transform_in": ("transform_in", "self._transform_in"),
                    "self._transform_out": ("transform_out", "self._transform_out")}
            if attr in want and len(s.body) == 1 and len(s.orelse) == 1 and \
                    isinstance(s.body[0], ast.Expr) and isinstance(s.orelse[0], ast.Expr):
                a, b = ds_call(s.body[0].value), ds_call(s.orelse[0].value)
                if a is not None and b is not None and a.args[0].value == b.args[0].value == want[attr][0]:
                    ka = {k.arg: ast.unparse(k.value) for k in a.keywords}
                    kb = {k.arg: ast.unparse(k.value) for k in b.keywords}
                    if ka.get("data") == "HDF5None" and kb.get("data") == want[attr][1] and \
                            ast.unparse(a.args[1]) == "(1,)":
                        steps.append("CreateStep.arr %s" % FF_ARRS[want[attr][0]])
                        continue
            raise Untranslatable("_create_file: optional dataset %s" % u)
        # variable-length datasets
        if isinstance(s, ast.Assign) and ds_call(s.value) is not None:
            c = ds_call(s.value)
            name = c.args[0].value
            if name not in FF_VLEN or attr_chain(s.targets[0]) != ["self", "_" + name]:
                raise Untranslatable("_create_file: dataset %s" % u)
            kw = {k.arg: ast.unparse(k.value) for k in c.keywords}
            shp = c.args[1] if len(c.args) > 1 else None
            if not (isinstance(shp, ast.Tuple) and len(shp.elts) == 1 and
                    isinstance(shp.elts[0], ast.Constant) and isinstance(shp.elts[0].value, int)):
                raise Untranslatable("_create_file: shape of %s" % name)
            v, is_data = FF_VLEN[name]
            if kw.get("dtype") != ("data_type" if is_data else "shape_type"):
                raise Untranslatable("_create_file: dtype of %s" % name)
            steps.append("CreateStep.%s %s %d" % ("vdata" if is_data else "vshape", v,
                                                  shp.elts[0].value))
            continue
        if u == "self.set_initial_tensor(initial_tensor=None)":
            steps.append("CreateStep.setInitialNone")
            continue
        raise Untranslatable("_create_file: statement %s" % u)
    out.append("/-- %s:%d  FileProcessTensor._create_file: statements in order -/\n"
               "def createSteps : List CreateStep := [\n  %s]\n"
               % (FF_REL, fn.lineno, ",\n  ".join(steps)))


def _ff_simple_set_initial(src, out):
    fn = src.function(FF_REL, "SimpleProcessTensor.set_initial_tensor")

    def value_of(v):
        u = ast.unparse(v)
        if u == "None":
            return "none"
        if u == "initial_tensor":
            return "x"
        if u in ("np.array(initial_tensor, dtype=NpDtype)", "np.array(initial_tensor)"):
            return "(some (npArray x))"
        raise Untranslatable("set_initial_tensor: value %s" % u)

    def test_of(t):
        u = ast.unparse(t)
        if u == "initial_tensor is None":
            return "x.isNone"
        if u == "initial_tensor is not None":
            return "x.isSome"
        raise Untranslatable("set_initial_tensor: test %s" % u)

    p = _FFPath(["self", "_initial_tensor"], value_of, test_of)
    res = p.final(_ff_body(fn), "SimpleProcessTensor.set_initial_tensor", old="old")
    out.append("/-- %s:%d  SimpleProcessTensor.set_initial_tensor, executed symbolically: the value of\n"
               "    `_initial_tensor` after the call with argument `x` when it held `old` before (source: %s) -/\n"
               "def simpleSetInitial (old x : Option Tensor) : Option Tensor :=\n  %s\n"
               % (FF_REL, fn.lineno,
                  " ; ".join(" ".join(ast.unparse(s).split()) for s in _ff_body(fn)).replace("-/", "- /"),
                  res))


def _ff_pttempo(src, out):
    rel = "oqupy/pt_tempo.py"
    fn = src.function(rel, "PtTempo.__init__")
    hits = [n for n in ast.walk(fn) if isinstance(n, ast.If) and any(
        isinstance(c, ast.Call) and ast.unparse(c) == "self._init_file_process_tensor(filename, overwrite)"
        for st in n.body for c in ast.walk(st))]
    hits = [n for n in hits if any(ast.unparse(st) == "self._init_simple_process_tensor()"
                                   for st in n.orelse)]
    if len(hits) != 1:
        raise Untranslatable("PtTempo.__init__: choice between file and simple process tensor")
    node = hits[0]
    table = {"process_tensor_file": "truthy",
             "isinstance(process_tensor_file, Text)": "isText"}
    test = _ff_flag_expr(node.test, table)
    if len(node.body) != 2 or len(node.orelse) != 1 or not isinstance(node.body[0], ast.If):
        raise Untranslatable("PtTempo.__init__: file branch shape")
    inner = node.body[0]
    t2 = _ff_flag_expr(inner.test, table)
    a = [ast.unparse(s) for s in inner.body]
    b = [ast.unparse(s) for s in inner.orelse]
    if a != ["filename = process_tensor_file"] or b != ["filename = None"]:
        raise Untranslatable("PtTempo.__init__: filename selection %r / %r" % (a, b))
    out.append("/-- %s:%d  PtTempo.__init__: `if %s:` file-backed (named if `%s`, else a temporary "
               "file) `else:` in memory -/\n"
               "def ptTempoChoice (truthy isText : Bool) : PtChoice :=\n"
               "  if %s then (if %s then PtChoice.fileNamed else PtChoice.fileTemp) else PtChoice.simple\n"
               % (rel, node.lineno, ast.unparse(node.test), ast.unparse(inner.test), test, t2))
    fn2 = src.function(rel, "PtTempo._init_file_process_tensor")
    ifs = [s for s in fn2.body if isinstance(s, ast.If) and any(
        isinstance(n, ast.Assign) and isinstance(n.targets[0], ast.Name) and n.targets[0].id == "mode"
        for n in ast.walk(s))]
    if len(ifs) != 1:
        raise Untranslatable("PtTempo._init_file_process_tensor: mode selection")
    calls = [s for s in fn2.body if isinstance(s, ast.Assign) and
             attr_chain(s.targets[0]) == ["self", "_process_tensor"]]
    if len(calls) != 1:
        raise Untranslatable("PtTempo._init_file_process_tensor: constructor call")
    _ff_ctor_passes_mode(calls[0].value, "PtTempo._init_file_process_tensor")
    # `overwrite` must reach _init_file_process_tensor unchanged from both entry points
    fn3 = src.function(rel, "pt_tempo_compute")
    ctor = [n for n in ast.walk(fn3) if isinstance(n, ast.Call) and attr_chain(n.func) == ["PtTempo"]]
    if len(ctor) != 1:
        raise Untranslatable("pt_tempo_compute: PtTempo(...) call")
    params = [a.arg for a in fn.args.args if a.arg != "self"]
    passed = {}
    for k, a in enumerate(ctor[0].args):
        passed[params[k]] = ast.unparse(a)
    for k in ctor[0].keywords:
        passed[k.arg] = ast.unparse(k.value)
    if passed.get("overwrite") != "overwrite" or passed.get("process_tensor_file") != "process_tensor_file":
        raise Untranslatable("pt_tempo_compute: overwrite/process_tensor_file not passed through")
    for n in ast.walk(fn3):
        if isinstance(n, ast.Assign) and any(isinstance(t, ast.Name) and t.id == "overwrite"
                                             for t in n.targets):
            raise Untranslatable("pt_tempo_compute: overwrite reassigned")
    for n in list(ast.walk(fn)) + list(ast.walk(fn2)):
        if isinstance(n, ast.Assign) and any(isinstance(t, ast.Name) and t.id == "overwrite"
                                             for t in n.targets):
            raise Untranslatable("PtTempo: overwrite reassigned")
    out.append("/-- %s:%d  PtTempo._init_file_process_tensor: `%s` — (the caller's overwrite, the "
               "other operands of the condition, indexed) ↦ mode; pt_tempo_compute and PtTempo.__init__ pass "
               "`overwrite` through unchanged -/\n"
               "def ptTempoMode (overwrite : Bool) (other : Nat → Bool) : String := %s\n"
               % (rel, ifs[0].lineno, " ".join(ast.unparse(ifs[0]).split()),
                  _ff_mode_by_overwrite(ifs[0], "_init_file_process_tensor", allow_other=True)))
    if _ff_mode_by_overwrite.others:
        out.append("/- other operands: %s -/\n" % "; ".join(
            "other %d = `%s`" % (k, u.replace("-/", "- /")) for k, u in enumerate(_ff_mode_by_overwrite.others)))


def _ff_setter(src, out, prop, lean_name):
    """FileProcessTensor.<prop>.setter"""
    cls = src.function(FF_REL, "FileProcessTensor")
    fns = [m for m in cls.body if isinstance(m, ast.FunctionDef) and m.name == prop and
           any(ast.unparse(d) == prop + ".setter" for d in m.decorator_list)]
    if len(fns) != 1:
        raise Untranslatable("FileProcessTensor.%s.setter not found" % prop)
    fn = fns[0]
    arg = [a.arg for a in fn.args.args if a.arg != "self"]
    if len(arg) != 1:
        raise Untranslatable("%s.setter: arguments" % prop)
    arg = arg[0]
    body = _ff_body(fn)
    fields = {"_name": "MetaField.name", "_description": "MetaField.description"}
    # (1) `if arg is None: arg = "<default>" else: assert ...`
    if not body or not isinstance(body[0], ast.If) or ast.unparse(body[0].test) != arg + " is None" \
            or len(body[0].body) != 1 or not isinstance(body[0].body[0], ast.Assign) \
            or ast.unparse(body[0].body[0].targets[0]) != arg \
            or not isinstance(body[0].body[0].value, ast.Constant) \
            or any(not isinstance(x, ast.Assert) for x in body[0].orelse):
        raise Untranslatable("%s.setter: None-default statement" % prop)
    default = _ff_lean_str(body[0].body[0].value.value)
    # (2) `self._x = arg`
    if len(body) < 2 or not isinstance(body[1], ast.Assign) or ast.unparse(body[1].value) != arg \
            or attr_chain(body[1].targets[0]) is None or len(attr_chain(body[1].targets[0])) != 2 \
            or attr_chain(body[1].targets[0])[1] not in fields:
        raise Untranslatable("%s.setter: assignment of the private attribute" % prop)
    field = fields[attr_chain(body[1].targets[0])[1]]
    # (3) `if <guard>: self._f.attrs[<key>] = self._y`
    if len(body) != 3 or not isinstance(body[2], ast.If) or body[2].orelse or len(body[2].body) != 1:
        raise Untranslatable("%s.setter: guarded write" % prop)
    g = body[2]
    w = g.body[0]
    if not (isinstance(w, ast.Assign) and len(w.targets) == 1 and _ff_is_attr_sub(w.targets[0])
            and w.targets[0].slice.value in FF_ATTRS and attr_chain(w.value) is not None
            and len(attr_chain(w.value)) == 2 and attr_chain(w.value)[0] == "self"
            and attr_chain(w.value)[1] in fields):
        raise Untranslatable("%s.setter: written attribute %s" % (prop, ast.unparse(w)))
    guard = _ff_flag_expr(g.test, {"self._write": "write", "self._f is not None": "isOpen"})
    out.append("/-- %s:%d  FileProcessTensor.%s.setter: `%s = %s` then `if %s: %s` -/\n"
               "def %s : SetterSpec :=\n"
               "  { field := %s, noneDefault := %s, guard := fun write isOpen => %s,\n"
               "    attr := %s, src := %s }\n"
               % (FF_REL, fn.lineno, prop, ast.unparse(body[1].targets[0]), arg,
                  ast.unparse(g.test), ast.unparse(w), lean_name, field, default, guard,
                  FF_ATTRS[w.targets[0].slice.value], fields[attr_chain(w.value)[1]]))


def _ff_pt_init(src, out, qual, lean_name, ctor):
    """PtTempo._init_simple_process_tensor / _init_file_process_tensor: what is handed to the
    process-tensor constructor"""
    rel = "oqupy/pt_tempo.py"
    fn = src.function(rel, qual)
    body = _ff_body(fn)
    if not body or ast.unparse(body[0]) != "unitary = self._bath.unitary_transform":
        raise Untranslatable("%s: does not start with unitary = self._bath.unitary_transform" % qual)
    ifs = [x for x in body if isinstance(x, ast.If) and "unitary" in ast.unparse(x.test)]
    if len(ifs) != 1:
        raise Untranslatable("%s: transform selection" % qual)
    node = ifs[0]

    def uexpr(e):
        u = ast.unparse(e)
        if u == "unitary":
            return "UExpr.u"
        if u in ("unitary.conjugate().T", "unitary.conj().T", "unitary.T.conjugate()", "unitary.T.conj()"):
            return "UExpr.udag"
        raise Untranslatable("%s: operand %s" % (qual, u))

    def lrs(stmts, name):
        hits = [x for x in stmts if isinstance(x, ast.Assign) and ast.unparse(x.targets[0]) == name]
        if len(hits) != 1:
            raise Untranslatable("%s: assignment of %s" % (qual, name))
        v = hits[0].value
        if isinstance(v, ast.Attribute) and v.attr == "T" and isinstance(v.value, ast.Call) and \
                attr_chain(v.value.func) == ["left_right_super"] and len(v.value.args) == 2 and \
                not v.value.keywords:
            return "(%s, %s)" % (uexpr(v.value.args[0]), uexpr(v.value.args[1]))
        raise Untranslatable("%s: %s = %s" % (qual, name, ast.unparse(v)))
    if len(node.body) != 2 or len(node.orelse) != 2:
        raise Untranslatable("%s: transform branches" % qual)
    tin, tout = lrs(node.body, "transform_in"), lrs(node.body, "transform_out")
    else_none = sorted(ast.unparse(x) for x in node.orelse) == ["transform_in = None",
                                                               "transform_out = None"]
    calls = [x for x in body if isinstance(x, ast.Assign) and
             attr_chain(x.targets[0]) == ["self", "_process_tensor"]]
    if len(calls) != 1 or not isinstance(calls[0].value, ast.Call) or \
            attr_chain(calls[0].value.func) != [ctor] or calls[0].value.args:
        raise Untranslatable("%s: constructor call" % qual)
    kws = sorted((k.arg, ast.unparse(k.value)) for k in calls[0].value.keywords
                 if k.arg not in ("mode", "filename"))
    # nothing else may touch the transforms
    for x in body:
        if x is node or x is calls[0] or x is body[0]:
            continue
        if any(isinstance(n, ast.Name) and n.id in ("transform_in", "transform_out", "unitary")
               for n in ast.walk(x)):
            raise Untranslatable("%s: statement %s" % (qual, ast.unparse(x)))
    out.append("/-- %s:%d  PtTempo.%s -/\ndef %s : PtInitSpec :=\n"
               "  { cond := %s, tin := %s, tout := %s, elseNone := %s,\n    kwargs := [%s] }\n"
               % (rel, fn.lineno, qual.split(".")[-1], lean_name,
                  _ff_lean_str(ast.unparse(node.test)), tin, tout, "true" if else_none else "false",
                  ", ".join("(%s, %s)" % (_ff_lean_str(a), _ff_lean_str(b)) for a, b in kws)))


def _ff_pttempo_unwind(src, out):
    found = []
    where = []
    for rel, quals in (("oqupy/pt_tempo.py", ["pt_tempo_compute", "PtTempo.compute",
                                               "PtTempo.get_process_tensor"]),
                       ("oqupy/backends/pt_tempo_backend.py",
                        ["PtTempoBackend.update_process_tensor", "PtTempoBackend.compute_step",
                         "PtTempoBackend.initialize"]),
                       (FF_REL, ["FileProcessTensor.compute_caps", "FileProcessTensor.set_mpo_tensor",
                                 "FileProcessTensor.set_cap_tensor",
                                 "FileProcessTensor.set_initial_tensor", "_set_data_and_shape"])):
        for q in quals:
            fn = src.function(rel, q)
            h = _ff_handlers_of(fn)
            if h:
                where.append("%s:%s" % (rel, q))
            found.extend(h)
    out.append("/-- close()/remove() calls in except/finally blocks on the file-backed PT-TEMPO "
               "writing path (pt_tempo_compute, PtTempo.compute/get_process_tensor, "
               "PtTempoBackend.update_process_tensor/compute_step/initialize, "
               "FileProcessTensor.compute_caps/set_*_tensor, _set_data_and_shape)%s -/\n"
               "def ptTempoUnwind : List UnwindStep := [%s]\n"
               % ("; found in " + ", ".join(where) if where else "", ", ".join(found)))


def _ff_is_writing_target(t):
    return isinstance(t, ast.Subscript) and isinstance(t.slice, ast.Constant) and \
        t.slice.value == "writing" and isinstance(t.value, ast.Attribute) and t.value.attr == "attrs"


def _ff_writing_assignments(src, out):
    """every assignment to <x>.attrs['writing'] in oqupy/process_tensor.py"""
    tree = src.tree(FF_REL)
    found = []

    def visit(node, qual):
        for ch in ast.iter_child_nodes(node):
            if isinstance(ch, (ast.FunctionDef, ast.ClassDef)):
                visit(ch, ch.name)
                continue
            targets = []
            if isinstance(ch, ast.Assign):
                targets = ch.targets
            elif isinstance(ch, (ast.AugAssign, ast.AnnAssign)):
                targets = [ch.target]
            for t in targets:
                if _ff_is_writing_target(t):
                    v = _ff_const_bool(getattr(ch, "value", None))
                    if v is None:
                        raise Untranslatable("%s: attrs['writing'] assigned a non-constant" % qual)
                    found.append((qual, v, ch.lineno))
            if isinstance(ch, ast.Call) and isinstance(ch.func, ast.Attribute) and \
                    ch.func.attr in ("update", "modify", "create", "__setitem__") and \
                    isinstance(ch.func.value, ast.Attribute) and ch.func.value.attr == "attrs":
                raise Untranslatable("%s: attrs.%s(...) call" % (qual, ch.func.attr))
            visit(ch, qual)
    visit(tree, "<module>")
    out.append("/-- %s: every assignment to attrs['writing'] (function, constant; lines %s) -/\n"
               "def writingAssignments : List (String × Bool) := [%s]\n"
               % (FF_REL, ", ".join(str(l) for _, _, l in found),
                  ", ".join("(%s, %s)" % (_ff_lean_str(q), v) for q, v, _ in found)))


def _ff_compute_caps_tail(src, out):
    fn = src.function(FF_REL, "FileProcessTensor.compute_caps")
    body = _ff_body(fn)
    last_cap = -1
    for i, st in enumerate(body):
        if any(isinstance(n, ast.Call) and isinstance(n.func, ast.Attribute) and
               n.func.attr == "set_cap_tensor" for n in ast.walk(st)):
            last_cap = i
    tail = []
    for i, st in enumerate(body):
        attr_writes = [n for n in ast.walk(st) if isinstance(n, (ast.Assign, ast.AugAssign)) and
                       any(isinstance(t, ast.Subscript) and isinstance(t.value, ast.Attribute)
                           and t.value.attr == "attrs"
                           for t in (n.targets if isinstance(n, ast.Assign) else [n.target]))]
        if not attr_writes:
            continue
        if i <= last_cap or len(attr_writes) != 1 or attr_writes[0] is not st or \
                not _ff_is_writing_target(st.targets[0]) or _ff_const_bool(st.value) is None:
            raise Untranslatable("compute_caps(): attribute write %s" % ast.unparse(st))
        tail.append(_ff_const_bool(st.value))
    out.append("/-- %s:%d  FileProcessTensor.compute_caps: values assigned to attrs['writing'] after "
               "the last cap write -/\ndef computeCapsTail : List Bool := [%s]\n"
               % (FF_REL, fn.lineno, ", ".join(tail)))


def _ff_import_copy(src, out):
    """the 'simple' branch of import_process_tensor: how tensors get from the file object `pt_file`
    into the new object `pt`"""
    fn = src.function(FF_REL, "import_process_tensor")
    assigned = {}          # local name -> call it was assigned from
    for n in ast.walk(fn):
        if isinstance(n, ast.Assign) and len(n.targets) == 1 and isinstance(n.targets[0], ast.Name) \
                and isinstance(n.value, ast.Call):
            assigned.setdefault(n.targets[0].id, []).append(n.value)

    def source_call(arg, getter):
        """the pt_file.<getter>(...) call an argument of pt.set_*_tensor comes from"""
        cands = [arg] if isinstance(arg, ast.Call) else assigned.get(getattr(arg, "id", None), [])
        cands = [c for c in cands if attr_chain(c.func) == ["pt_file", getter]]
        return cands[0] if len(cands) == 1 else None

    sets = [n for n in ast.walk(fn) if isinstance(n, ast.Call) and
            attr_chain(n.func) == ["pt", "set_mpo_tensor"]]
    if len(sets) != 1 or len(sets[0].args) != 2 or sets[0].keywords:
        raise Untranslatable("import_process_tensor: expected one pt.set_mpo_tensor(step, tensor)")
    g = source_call(sets[0].args[1], "get_mpo_tensor")
    if g is None:
        raise Untranslatable("import_process_tensor: the MPO tensor does not come from "
                             "pt_file.get_mpo_tensor(...)")
    if ast.unparse(g.args[0] if g.args else None) != ast.unparse(sets[0].args[0]):
        raise Untranslatable("import_process_tensor: MPO tensors copied to a different step")
    tr = None
    if len(g.args) >= 2:
        tr = g.args[1]
    for k in g.keywords:
        if k.arg == "transformed":
            tr = k.value
    if tr is None:
        dflt = src.function(FF_REL, "FileProcessTensor.get_mpo_tensor").args
        names = [a.arg for a in dflt.args]
        d = dflt.defaults[len(dflt.defaults) - (len(names) - names.index("transformed"))]
        tr = d
    val = _ff_const_bool(tr)
    if val is None:
        raise Untranslatable("import_process_tensor: transformed=%s" % ast.unparse(tr))
    caps = [n for n in ast.walk(fn) if isinstance(n, ast.Call) and
            attr_chain(n.func) == ["pt", "set_cap_tensor"]]
    copies = "false"
    if len(caps) == 1 and len(caps[0].args) == 2:
        gc = source_call(caps[0].args[1], "get_cap_tensor")
        if gc is not None and gc.args and ast.unparse(gc.args[0]) == ast.unparse(caps[0].args[0]):
            copies = "true"
    if any(isinstance(n, ast.Call) and attr_chain(n.func) == ["pt", "compute_caps"]
           for n in ast.walk(fn)):
        copies = "false"
    body = _ff_body(fn)
    first = ast.unparse(body[0]) if body else ""
    opens_first = first in ("pt_file = FileProcessTensor(mode='read', filename=filename)",
                            "pt_file = FileProcessTensor('read', filename)",
                            "pt_file = FileProcessTensor(mode='read', filename=filename)")
    returns_before = False
    out.append("/-- %s:%d  import_process_tensor: its first statement is `%s` — every call opens "
               "the file through FileProcessTensor(mode='read') (and hence _read_file) before "
               "anything else can return -/\ndef importOpensFirst : Bool := %s\n"
               % (FF_REL, fn.lineno, " ".join(first.split())[:120].replace("-/", "- /"),
                  "true" if opens_first else "false"))
    out.append("/-- %s:%d  import_process_tensor, 'simple': `pt.set_mpo_tensor(%s, %s)`; caps copied "
               "with get_cap_tensor/set_cap_tensor: %s -/\n"
               "def importMpoTransformed : Bool := %s\ndef importCopiesCaps : Bool := %s\n"
               % (FF_REL, sets[0].lineno, ast.unparse(sets[0].args[0]), ast.unparse(g), copies,
                  val, copies))


EXTRA_IMPORTS["FileFlags"] = "import OQuPyVerif.Model.PTFile\n"


@fragment("FileFlags")
def frag_fileflags(src):
    out = ["open OQuPyVerif.PTFile\n"]
    _ff_read_file(src, out)
    _ff_close(src, out)
    _ff_init(src, out)
    _ff_remove(src, out)
    _ff_export(src, out)
    _ff_create_file(src, out)
    _ff_simple_set_initial(src, out)
    _ff_pttempo(src, out)
    _ff_setter(src, out, "name", "nameSetter")
    _ff_setter(src, out, "description", "descrSetter")
    _ff_pt_init(src, out, "PtTempo._init_simple_process_tensor", "ptTempoSimpleInit",
                "SimpleProcessTensor")
    _ff_pt_init(src, out, "PtTempo._init_file_process_tensor", "ptTempoFileInit",
                "FileProcessTensor")
    _ff_pttempo_unwind(src, out)
    _ff_writing_assignments(src, out)
    _ff_compute_caps_tail(src, out)
    _ff_import_copy(src, out)
    out.append("/-- everything above as one record (the model is a function of it) -/\n"
               "def flags : Flags :=\n"
               "  { readWarn := readWarn, closeReset := closeReset, closeValue := closeValue,\n"
               "    modeFlags := modeFlags, createMode := createMode, readMode := readMode,\n"
               "    removeable := removeable, removeSteps := removeSteps,\n"
               "    exportMode := exportMode, exportSteps := exportSteps, createSteps := createSteps,\n"
               "    readAttrs := readAttrs, readArrs := readArrs, readVs := readVs,\n"
               "    simpleSetInitial := simpleSetInitial, ptTempoChoice := ptTempoChoice,\n"
               "    ptTempoMode := ptTempoMode, nameSetter := nameSetter, descrSetter := descrSetter,\n"
               "    ptTempoSimpleInit := ptTempoSimpleInit, ptTempoFileInit := ptTempoFileInit,\n"
               "    exportUnwind := exportUnwind, ptTempoUnwind := ptTempoUnwind,\n"
               "    writingAssignments := writingAssignments, computeCapsTail := computeCapsTail,\n"
               "    importMpoTransformed := importMpoTransformed, importCopiesCaps := importCopiesCaps,\n"
               "    readWarnUnconditional := readWarnUnconditional, closeResetPure := closeResetPure,\n"
               "    importOpensFirst := importOpensFirst }\n")
    return "\n".join(out)
# end of FileFlags


# ---------------------------------------------------------------------------
# ProgressGuard  (C19):  how every API guards its progress object, and what the
# progress classes do per statement
# ---------------------------------------------------------------------------
#
# Part 1 -- API table.  Every function / method of the anchored files whose body calls
# `get_progress(...)` must use the resulting object in one of these shapes:
#     P = get_progress(x) ... with P(args) as Y: ...          -> withStmt
#     with get_progress(x)(args) as Y: ...                    -> withStmt
#     Y = get_progress(x)(args); Y.enter(); try: ... finally: Y.exit() [first stmt]
#                                                             -> tryFinally
#     Y = get_progress(x)(args); Y.enter(); ...; Y.exit()     -> bare
#   (a try/finally that does not start right after `Y.enter()` is `bare`).
#   Anything else is Untranslatable.  `BaseProgress.__enter__/__exit__` must delegate to
#   `enter()` / `exit()`; the shape of `__exit__` (result of exit() dropped / returned /
#   constant) and the kind of value each exit() returns (none / self / falsy constant /
#   other value) are recorded: a truthy `__exit__` would swallow the exception.
#
# Part 2 -- micro-op lists of each class registered in PROGRESS_DICT:
#     print(...) / self._file.write(...)            -> print     (self._file.flush(): nothing)
#     self.<pure-output method>()                   -> print
#     self._timer.cancel()                          -> cancelTimer
#     self._timer = Timer(<number>, self.<method>)  -> newTimer <method>
#     self._timer.daemon = True                     -> setDaemon
#     self._timer.start()                           -> startTimer
#     self._active = True / False                   -> setActive
#     with self._lock: BODY                         -> acquire, BODY, release
#     if not self._active: return                   -> returnUnlessActive
#     self.<other attribute> = <expr>               -> setStep
#     if <test>: <only prints | only plain stores>  -> print | setStep  (one op, at the `if`)
#     local assignment, `pass`, docstring, final `return [self]`, try/except around local
#     assignments                                   -> nothing
#   where <expr>/<test> must not mention _timer/_active/_lock/Timer/Lock.

PG_FILES = ["oqupy/util.py", "oqupy/system_dynamics.py", "oqupy/gradient.py",
            "oqupy/tempo.py", "oqupy/pt_tempo.py", "oqupy/pt_tebd.py"]
PG_SHARED = {"_timer", "_active", "_lock"}
EXTRA_IMPORTS["ProgressGuard"] = "import OQuPyVerif.Model.Progress\n"


def _pg_is_call_of(node, name):
    return isinstance(node, ast.Call) and isinstance(node.func, ast.Name) and node.func.id == name


def _pg_calls_get_progress(fn):
    """get_progress(...) calls directly in the body of fn (not in nested defs)"""
    out = []

    def walk(n):
        for ch in ast.iter_child_nodes(n):
            if isinstance(ch, (ast.FunctionDef, ast.AsyncFunctionDef, ast.Lambda, ast.ClassDef)):
                continue
            if _pg_is_call_of(ch, "get_progress"):
                out.append(ch)
            walk(ch)
    walk(fn)
    return out


def _pg_method_call(stmt, var, meth):
    """stmt is `var.meth()`"""
    return (isinstance(stmt, ast.Expr) and isinstance(stmt.value, ast.Call)
            and isinstance(stmt.value.func, ast.Attribute) and stmt.value.func.attr == meth
            and isinstance(stmt.value.func.value, ast.Name) and stmt.value.func.value.id == var
            and not stmt.value.args and not stmt.value.keywords)


def _pg_blocks(fn):
    """every statement list inside fn (not entering nested defs)"""
    todo = [fn.body]
    while todo:
        blk = todo.pop()
        yield blk
        for st in blk:
            if isinstance(st, (ast.FunctionDef, ast.AsyncFunctionDef, ast.ClassDef)):
                continue
            for field in ("body", "orelse", "finalbody"):
                sub = getattr(st, field, None)
                if isinstance(sub, list) and sub and isinstance(sub[0], ast.stmt):
                    todo.append(sub)
            for h in getattr(st, "handlers", []) or []:
                todo.append(h.body)


def _pg_api_uses(rel, qual, fn):
    calls = _pg_calls_get_progress(fn)
    if not calls:
        return []
    accounted = set()
    uses = []
    factories = {}       # local name bound to get_progress(...)
    for blk in _pg_blocks(fn):
        for i, st in enumerate(blk):
            # P = get_progress(x)
            if isinstance(st, ast.Assign) and len(st.targets) == 1 \
                    and isinstance(st.targets[0], ast.Name) and _pg_is_call_of(st.value, "get_progress"):
                factories[st.targets[0].id] = st.value
    for blk in _pg_blocks(fn):
        for i, st in enumerate(blk):
            if isinstance(st, ast.With):
                for item in st.items:
                    ce = item.context_expr
                    if not isinstance(ce, ast.Call):
                        continue
                    if isinstance(ce.func, ast.Name) and ce.func.id in factories:
                        accounted.add(id(factories[ce.func.id]))
                    elif _pg_is_call_of(ce.func, "get_progress"):
                        accounted.add(id(ce.func))
                    else:
                        continue
                    if len(st.items) != 1 or not isinstance(item.optional_vars, ast.Name):
                        raise Untranslatable("%s:%s: unusual with-statement around a progress object"
                                             % (rel, qual))
                    uses.append((st.lineno, "withStmt"))
            # Y = get_progress(x)(args)
            if isinstance(st, ast.Assign) and len(st.targets) == 1 \
                    and isinstance(st.targets[0], ast.Name) and isinstance(st.value, ast.Call) \
                    and _pg_is_call_of(st.value.func, "get_progress"):
                var = st.targets[0].id
                accounted.add(id(st.value.func))
                if i + 1 >= len(blk) or not _pg_method_call(blk[i + 1], var, "enter"):
                    raise Untranslatable("%s:%s: progress object %s is not entered right after "
                                         "its construction" % (rel, qual, var))
                after = blk[i + 2:]
                style = None
                if after and isinstance(after[0], ast.Try) and after[0].finalbody \
                        and _pg_method_call(after[0].finalbody[0], var, "exit"):
                    style = "tryFinally"
                elif any(_pg_method_call(s2, var, "exit") for s2 in after):
                    style = "bare"
                elif any(isinstance(s2, ast.Try) and s2.finalbody and
                         any(_pg_method_call(s3, var, "exit") for s3 in s2.finalbody)
                         for s2 in after):
                    style = "bare"      # guarded only from some later point on
                if style is None:
                    raise Untranslatable("%s:%s: no exit() for progress object %s"
                                         % (rel, qual, var))
                uses.append((st.lineno, style))
    for c in calls:
        if id(c) not in accounted:
            raise Untranslatable("%s:%s: get_progress(...) at line %d is used in a shape the "
                                 "translator does not know" % (rel, qual, c.lineno))
    uses.sort()
    return uses


def _pg_mentions_shared(node):
    for n in ast.walk(node):
        if isinstance(n, ast.Attribute) and n.attr in PG_SHARED:
            return True
        if isinstance(n, ast.Name) and n.id in ("Timer", "Lock", "RLock", "Thread"):
            return True
    return False


def _pg_self_attr(node, attr=None):
    return (isinstance(node, ast.Attribute) and isinstance(node.value, ast.Name)
            and node.value.id == "self" and (attr is None or node.attr == attr))


class _PgClass:
    def __init__(self, rel, cls, bases):
        self.rel, self.cls = rel, cls
        self.methods = {}
        for c in [cls] + bases:
            for st in c.body:
                if isinstance(st, ast.FunctionDef) and st.name not in self.methods:
                    self.methods[st.name] = st
        self._pure = {}
        self.returns = {}       # method -> none | self | falsy | value  (last statement)

    def err(self, node, msg):
        raise Untranslatable("%s:%d: %s.%s" % (self.rel, getattr(node, "lineno", 0),
                                                  self.cls.name, msg))

    def pure_output(self, name):
        """method whose statements are only local computation and output"""
        if name not in self._pure:
            if name not in self.methods:
                self._pure[name] = False
            else:
                self._pure[name] = False     # recursion guard
                try:
                    ops = self.block(self.methods[name].body, name, allow_calls=False)
                    self._pure[name] = all(o[0] == "print" for o in ops) and len(ops) > 0
                except Untranslatable:
                    self._pure[name] = False
        return self._pure[name]

    def block(self, stmts, mname, allow_calls=True, last_of_method=True):
        ops = []
        n = len(stmts)
        for i, st in enumerate(stmts):
            is_last = last_of_method and i == n - 1
            ops += self.stmt(st, mname, allow_calls, is_last)
        return ops

    def stmt(self, st, mname, allow_calls, is_last):
        ln = st.lineno
        if isinstance(st, ast.Expr) and isinstance(st.value, ast.Constant):
            return []
        if isinstance(st, ast.Pass):
            return []
        if isinstance(st, ast.Return):
            if not is_last:
                self.err(st, "%s: return before the end" % mname)
            if st.value is None or (isinstance(st.value, ast.Constant) and st.value.value is None):
                self.returns[mname] = "none"
                return []
            if isinstance(st.value, ast.Name) and st.value.id == "self":
                self.returns[mname] = "self"
                return []
            if mname == "exit":
                # exit() may return a value; what matters is whether it can be truthy
                if _pg_mentions_shared(st.value):
                    self.err(st, "%s: returns protocol state" % mname)
                if isinstance(st.value, ast.Constant) and not st.value.value:
                    self.returns[mname] = "falsy"
                else:
                    self.returns[mname] = "value"
                return []
            self.err(st, "%s: returns something else than self" % mname)
        if isinstance(st, ast.Expr) and isinstance(st.value, ast.Call):
            c = st.value
            f = c.func
            if isinstance(f, ast.Name) and f.id == "print":
                if any(_pg_mentions_shared(a) for a in c.args) or \
                        any(_pg_mentions_shared(k.value) for k in c.keywords):
                    self.err(st, "%s: print of protocol state" % mname)
                return [("print", ln)]
            if isinstance(f, ast.Attribute) and _pg_self_attr(f.value, "_file"):
                if f.attr == "write":
                    return [("print", ln)]
                if f.attr == "flush":
                    return []
            if isinstance(f, ast.Attribute) and _pg_self_attr(f.value, "_timer") \
                    and not c.args and not c.keywords:
                if f.attr == "cancel":
                    return [("cancelTimer", ln)]
                if f.attr == "start":
                    return [("startTimer", ln)]
            if isinstance(f, ast.Attribute) and _pg_self_attr(f.value, "_timer") \
                    and f.attr == "setDaemon" and len(c.args) == 1 \
                    and isinstance(c.args[0], ast.Constant) and c.args[0].value is True:
                return [("setDaemon", ln)]
            if _pg_self_attr(f) and not c.args and not c.keywords and allow_calls \
                    and self.pure_output(f.attr):
                return [("print", ln)]
            self.err(st, "%s: call `%s`" % (mname, ast.unparse(st)[:80]))
        if isinstance(st, (ast.Assign, ast.AnnAssign, ast.AugAssign)):
            if isinstance(st, ast.Assign):
                if len(st.targets) != 1:
                    self.err(st, "%s: multiple assignment" % mname)
                tgt = st.targets[0]
            else:
                tgt = st.target
            val = st.value
            if isinstance(tgt, ast.Name):
                if val is not None and _pg_mentions_shared(val):
                    self.err(st, "%s: local copy of protocol state" % mname)
                return []
            if _pg_self_attr(tgt, "_timer") and isinstance(st, ast.Assign):
                if isinstance(val, ast.Call) and isinstance(val.func, ast.Name) \
                        and val.func.id == "Timer" and len(val.args) == 2 and not val.keywords \
                        and isinstance(val.args[0], ast.Constant) \
                        and isinstance(val.args[0].value, (int, float)) \
                        and _pg_self_attr(val.args[1]):
                    cb = val.args[1].attr
                    if cb == "update":
                        return [("newTimer .update", ln)]
                    if self.pure_output(cb):
                        return [("newTimer .printStatus", ln)]
                    self.err(st, "%s: timer callback %s" % (mname, cb))
                self.err(st, "%s: assignment to _timer" % mname)
            if isinstance(tgt, ast.Attribute) and _pg_self_attr(tgt.value, "_timer") \
                    and tgt.attr == "daemon" and isinstance(val, ast.Constant) and val.value is True:
                return [("setDaemon", ln)]
            if _pg_self_attr(tgt, "_active") and isinstance(val, ast.Constant) \
                    and isinstance(val.value, bool):
                return [("setActive %s" % ("true" if val.value else "false"), ln)]
            if _pg_self_attr(tgt) and tgt.attr not in PG_SHARED:
                if val is not None and _pg_mentions_shared(val):
                    self.err(st, "%s: store of protocol state" % mname)
                return [("setStep", ln)]
            self.err(st, "%s: assignment `%s`" % (mname, ast.unparse(st)[:80]))
        if isinstance(st, ast.With):
            if len(st.items) == 1 and _pg_self_attr(st.items[0].context_expr, "_lock") \
                    and st.items[0].optional_vars is None:
                inner = self.block(st.body, mname, allow_calls, last_of_method=is_last)
                return [("acquire", ln)] + inner + [("release", ln)]
            self.err(st, "%s: with-statement" % mname)
        if isinstance(st, ast.If):
            t = st.test
            if isinstance(t, ast.UnaryOp) and isinstance(t.op, ast.Not) \
                    and _pg_self_attr(t.operand, "_active") and not st.orelse \
                    and len(st.body) == 1 and isinstance(st.body[0], ast.Return) \
                    and st.body[0].value is None:
                return [("returnUnlessActive", ln)]
            if _pg_mentions_shared(t):
                self.err(st, "%s: conditional on protocol state" % mname)
            inner = self.block(st.body, mname, allow_calls, last_of_method=False)
            other = self.block(st.orelse, mname, allow_calls, last_of_method=False)
            kinds = {o[0] for o in inner}
            if not inner and not other:
                return []
            if not other and len(kinds) == 1 and kinds <= {"print", "setStep"}:
                return [(kinds.pop(), ln)]
            self.err(st, "%s: conditional statement with protocol effects" % mname)
        if isinstance(st, ast.Try):
            # local computation guarded by except (frac = ... / except ZeroDivisionError)
            parts = list(st.body) + [s2 for h in st.handlers for s2 in h.body] + \
                list(st.orelse) + list(st.finalbody)
            inner = self.block(parts, mname, allow_calls, last_of_method=False)
            if inner:
                self.err(st, "%s: try-statement with effects" % mname)
            return []
        self.err(st, "%s: statement %s" % (mname, type(st).__name__))

    def init_ok(self):
        fn = self.methods.get("__init__")
        if fn is None:
            self.err(self.cls, "__init__ missing")
        for st in fn.body:
            if isinstance(st, ast.Expr) and isinstance(st.value, ast.Constant):
                continue
            if isinstance(st, ast.Assign) and len(st.targets) == 1 and _pg_self_attr(st.targets[0]):
                a, v = st.targets[0].attr, st.value
                if a == "_timer" and not (isinstance(v, ast.Constant) and v.value is None):
                    self.err(st, "__init__: _timer is not None")
                if a == "_active" and not (isinstance(v, ast.Constant) and v.value is False):
                    self.err(st, "__init__: _active is not False")
                if a == "_lock" and not (_pg_is_call_of(v, "Lock") and not v.args):
                    self.err(st, "__init__: _lock is not Lock()")
                if a not in PG_SHARED and _pg_mentions_shared(v):
                    self.err(st, "__init__: uses protocol state")
                continue
            self.err(st, "__init__: statement `%s`" % ast.unparse(st)[:60])


# Part 3 -- every place where the library itself starts threads or processes, in all of
# oqupy/**/*.py: calls of ThreadPoolExecutor / ProcessPoolExecutor / Pool / Thread / Timer /
# Process / Popen / fork / start_new_thread (by the last name of the callee).  Recorded per
# site: what is created and how it is held --
#     with X(...) [as e]: ...                          -> withStmt
#     self._timer = Timer(...) in a PROGRESS_DICT class -> progressProtocol (part 2 covers it)
#     self.<attr> = X(...)  /  module level assignment  -> stored
#     <local name> = X(...)                             -> localVar
#     anything else                                     -> other
PG_SPAWN = {"ThreadPoolExecutor": "threadPool", "ProcessPoolExecutor": "processPool",
            "Pool": "processPool", "Thread": "thread", "Timer": "timer", "Process": "process",
            "Popen": "other", "fork": "other", "start_new_thread": "other",
            "start_new": "other"}


def _pg_spawn_sites(src, progress_classes):
    root = os.path.join(src.repo, "oqupy")
    rels = []
    for d, _dirs, files in os.walk(root):
        for fn in files:
            if fn.endswith(".py"):
                rels.append(os.path.relpath(os.path.join(d, fn), src.repo))
    sites = []
    for rel in sorted(rels):
        tree = src.tree(rel)
        parent = {}
        for n in ast.walk(tree):
            for ch in ast.iter_child_nodes(n):
                parent[id(ch)] = n
        for n in ast.walk(tree):
            if not isinstance(n, ast.Call):
                continue
            f = n.func
            name = f.id if isinstance(f, ast.Name) else f.attr if isinstance(f, ast.Attribute) \
                else None
            if name not in PG_SPAWN:
                continue
            # enclosing function / class
            quals, cls = [], None
            q = parent.get(id(n))
            while q is not None:
                if isinstance(q, (ast.FunctionDef, ast.AsyncFunctionDef)):
                    quals.append(q.name)
                elif isinstance(q, ast.ClassDef):
                    quals.append(q.name)
                    cls = cls or q.name
                q = parent.get(id(q))
            func = ".".join(reversed(quals)) or "<module>"
            par = parent.get(id(n))
            scope = "other"
            if isinstance(par, ast.withitem) and par.context_expr is n:
                scope = "withStmt"
            elif isinstance(par, ast.Assign) and par.value is n and len(par.targets) == 1:
                tgt = par.targets[0]
                if isinstance(tgt, ast.Attribute):
                    if _pg_self_attr(tgt, "_timer") and name == "Timer" and cls in progress_classes:
                        scope = "progressProtocol"
                    else:
                        scope = "stored"
                elif isinstance(tgt, ast.Name):
                    scope = "localVar" if quals else "stored"
            sites.append((rel, func, n.lineno, PG_SPAWN[name], scope))
        # a spawn class that is mentioned without being called in place (bound to a variable,
        # passed on, ...) escapes the classification above: recorded with scope `other`
        called = {id(n.func) for n in ast.walk(tree) if isinstance(n, ast.Call)}
        for n in ast.walk(tree):
            name = n.id if isinstance(n, ast.Name) else n.attr if isinstance(n, ast.Attribute) \
                else None
            if name in PG_SPAWN and isinstance(getattr(n, "ctx", None), ast.Load) \
                    and id(n) not in called:
                quals = []
                q = parent.get(id(n))
                while q is not None:
                    if isinstance(q, (ast.FunctionDef, ast.AsyncFunctionDef, ast.ClassDef)):
                        quals.append(q.name)
                    q = parent.get(id(q))
                sites.append((rel, ".".join(reversed(quals)) or "<module>", n.lineno,
                              PG_SPAWN[name], "other"))
    return sites



def _pg_lean_list(items):
    return "[" + ", ".join(items) + "]"


@fragment("ProgressGuard")
def frag_progressguard(src):
    out = ["open OQuPyVerif.Progress\n"]
    # ---- part 1: API table
    rows = []
    for rel in PG_FILES:
        tree = src.tree(rel)
        fns = []
        for st in tree.body:
            if isinstance(st, ast.FunctionDef):
                fns.append((st.name, st))
            elif isinstance(st, ast.ClassDef):
                for s2 in st.body:
                    if isinstance(s2, ast.FunctionDef):
                        fns.append((st.name + "." + s2.name, s2))
        seen_calls = 0
        for qual, fn in fns:
            if qual == "get_progress":
                continue
            uses = _pg_api_uses(rel, qual, fn)
            seen_calls += len(_pg_calls_get_progress(fn))
            for idx, (line, style) in enumerate(uses):
                rows.append((rel, qual, idx, line, style))
        total = sum(1 for n in ast.walk(tree) if _pg_is_call_of(n, "get_progress"))
        if total != seen_calls:
            raise Untranslatable("%s: %d call(s) of get_progress outside top-level functions / "
                                 "methods" % (rel, total - seen_calls))
    if not rows:
        raise Untranslatable("no use of get_progress found")
    out.append("/-- every use of a progress object by an API function, with its guarding style -/")
    out.append("def apiTable : List ApiUse := [")
    out.append(",\n".join(
        '  { file := "%s", func := "%s", index := %d, line := %d, style := .%s }' % r
        for r in rows))
    out.append("]\n")
    # ---- part 2: the progress classes
    tree = src.tree("oqupy/util.py")
    classes = {st.name: st for st in tree.body if isinstance(st, ast.ClassDef)}
    base = classes.get("BaseProgress")
    if base is None:
        raise Untranslatable("BaseProgress not found")
    bm = {st.name: st for st in base.body if isinstance(st, ast.FunctionDef)}

    def body_wo_doc(fn):
        return [s for s in fn.body
                if not (isinstance(s, ast.Expr) and isinstance(s.value, ast.Constant))]
    en, ex = body_wo_doc(bm["__enter__"]), body_wo_doc(bm["__exit__"])
    if not (len(en) == 1 and isinstance(en[0], ast.Return)
            and ast.unparse(en[0].value) == "self.enter()"):
        raise Untranslatable("BaseProgress.__enter__ is not `return self.enter()`")
    # __exit__:  self.exit()  |  return self.exit()  |  self.exit(); return <constant>
    dunder = None
    if len(ex) == 1 and isinstance(ex[0], ast.Expr) and ast.unparse(ex[0].value) == "self.exit()":
        dunder = ".dropsResult"
    elif len(ex) == 1 and isinstance(ex[0], ast.Return) and ex[0].value is not None \
            and ast.unparse(ex[0].value) == "self.exit()":
        dunder = ".returnsExit"
    elif len(ex) == 2 and isinstance(ex[0], ast.Expr) and ast.unparse(ex[0].value) == "self.exit()" \
            and isinstance(ex[1], ast.Return) and (ex[1].value is None
                                                   or isinstance(ex[1].value, ast.Constant)):
        v = None if ex[1].value is None else ex[1].value.value
        dunder = "(.returnsConst %s)" % (".none" if v is None else ".falsy" if not v else ".value")
    if dunder is None:
        raise Untranslatable("BaseProgress.__exit__ is none of `self.exit()`, "
                             "`return self.exit()`, `self.exit(); return <constant>`")
    out.append("/-- `with` on a progress object calls exactly enter() / exit() "
               "(BaseProgress.__enter__/__exit__) -/")
    out.append("def withCallsEnterExit : Bool := true\n")
    out.append("/-- what BaseProgress.__exit__ returns: the `with` statement swallows the "
               "exception iff this is truthy -/")
    out.append("def dunderExit : ExitDelegation := %s\n" % dunder)
    pdict = None
    for st in tree.body:
        if isinstance(st, ast.Assign) and len(st.targets) == 1 \
                and isinstance(st.targets[0], ast.Name) and st.targets[0].id == "PROGRESS_DICT":
            pdict = st.value
    if not isinstance(pdict, ast.Dict):
        raise Untranslatable("PROGRESS_DICT is not a dict literal")
    kinds = []
    for k, v in zip(pdict.keys, pdict.values):
        if not (isinstance(k, ast.Constant) and isinstance(k.value, str)
                and isinstance(v, ast.Name) and v.id in classes):
            raise Untranslatable("PROGRESS_DICT entry")
        kinds.append((k.value, v.id))
    exit_returns = []
    for key, cname in kinds:
        cls = classes[cname]
        bases = [classes[b.id] for b in cls.bases if isinstance(b, ast.Name) and b.id in classes]
        pc = _PgClass("oqupy/util.py", cls, bases)
        pc.init_ok()
        ops = {}
        for m in ("enter", "update", "exit"):
            if m not in pc.methods:
                raise Untranslatable("%s.%s missing" % (cname, m))
            ops[m] = pc.block(pc.methods[m].body, m)
        exit_returns.append((key, pc.returns.get("exit", "none")))
        cbs = {o[0] for m in ops for o in ops[m] if o[0].startswith("newTimer")}
        ps = []
        if "newTimer .printStatus" in cbs:
            # the pure-output callback: one op at its first statement
            names = set()
            for m in ("enter", "update", "exit"):
                for n in ast.walk(pc.methods[m]):
                    if isinstance(n, ast.Call) and isinstance(n.func, ast.Name) \
                            and n.func.id == "Timer" and len(n.args) == 2 \
                            and _pg_self_attr(n.args[1]) and n.args[1].attr != "update":
                        names.add(n.args[1].attr)
            if len(names) != 1:
                raise Untranslatable("%s: several output callbacks %s" % (cname, sorted(names)))
            cbfn = pc.methods[names.pop()]
            ps = [("print", body_wo_doc(cbfn)[0].lineno)]
        ident = key + "Protocol"
        out.append("/-- oqupy/util.py:%d  class %s  (progress_type '%s') -/"
                   % (cls.lineno, cname, key))
        out.append("def %s : Protocol where" % ident)
        for m, l in (("enter", ops["enter"]), ("update", ops["update"]), ("exit", ops["exit"]),
                     ("printStatus", ps)):
            out.append("  %s := %s" % (m, _pg_lean_list([("(.%s)" % o[0]) if " " in o[0]
                                                          else "." + o[0] for o in l])))
        out.append("def %sLines : ProtocolLines where" % key)
        for m, l in (("enter", ops["enter"]), ("update", ops["update"]), ("exit", ops["exit"]),
                     ("printStatus", ps)):
            out.append("  %s := %s" % (m, _pg_lean_list([str(o[1]) for o in l])))
        out.append("")
    out.append("/-- what exit() of each progress class returns -/")
    out.append("def exitReturn : List (String × RetVal) := "
               + _pg_lean_list(['("%s", .%s)' % kr for kr in exit_returns]) + "\n")
    # ---- part 3: threads / processes started anywhere in the library
    sites = _pg_spawn_sites(src, {c for _k, c in kinds})
    out.append("/-- every construction of a thread / timer / process / executor pool in oqupy/, "
               "and how the object is held -/")
    out.append("def spawnTable : List SpawnSite := [")
    out.append(",\n".join(
        '  { file := "%s", func := "%s", line := %d, kind := .%s, scope := .%s }' % r
        for r in sites))
    out.append("]\n")
    out.append("/-- PROGRESS_DICT -/")
    out.append("def progressKinds : List (String × Protocol × ProtocolLines) := "
               + _pg_lean_list(['("%s", %sProtocol, %sLines)' % (k, k, k) for k, _ in kinds]))
    return "\n".join(out) + "\n"



# ---------------------------------------------------------------------------
# TimeExprs  (C15):  every arithmetic expression that computes a time handed to a user
# callable, a reported time label, a duration or a float -> step conversion.
#
# The walk is by *name roles* (a time `T` moves with the time origin, a duration/field `D`
# and an integer `I` do not) and by *sinks* (the place a value flows into fixes what it must
# be).  Each collected expression becomes a `Site` (deep embedding `TExpr`, see
# lean/OQuPyVerif/Model/TimeShift.lean) whose `role` comes from the SINK, never from the
# expression -- so `t = step * dt` (start_time dropped) is still collected, with role `time`,
# and its obligation `wt = some 1` fails.  A safety net refuses any arithmetic over a time
# name that no sink accounts for.
# ---------------------------------------------------------------------------

EXTRA_IMPORTS["TimeExprs"] = "import OQuPyVerif.Model.TimeShift\n"

TE_FILES = [
    ("oqupy/system.py", None), ("oqupy/tempo.py", None), ("oqupy/pt_tempo.py", None),
    ("oqupy/system_dynamics.py", None), ("oqupy/control.py", None), ("oqupy/pt_tebd.py", None),
    ("oqupy/gradient.py", None), ("oqupy/util.py", ["get_number_of_steps"]),
]

# constructors probe the user's callables once at the fixed time 1.0 (input validation only;
# the results never depend on it) -- those functions are not time expressions of a computation
TE_SKIP_FUNCTIONS = lambda name: name.startswith("_check_")
# GibbsTempo propagates in imaginary time from 0 to 1/T: it has no time origin to translate
TE_SKIP_CLASSES = ("GibbsTempo",)
# ... and the constructors of the time dependent systems read the dimension off H(1.0)
TE_PROBES = {
    ("oqupy/system.py", "TimeDependentSystem.__init__", "self._hamiltonian(1.0)"),
    ("oqupy/system.py", "TimeDependentSystemWithField.__init__", "self._hamiltonian(1.0, 1.0 + 1j)"),
    ("oqupy/system.py", "MeanFieldSystem.__init__", "system.hamiltonian(1.0, 1.0 + 1j)"),
}

TE_ROLES = {
    # times: move with the origin
    "start_time": "T", "tmp_start_time": "T", "end_time": "T", "tmp_end_time": "T",
    "t": "T", "t0": "T", "tau": "T", "time": "T", "times": "T", "times2": "T",
    "control_times": "T", "previous_time": "T",
    # durations / field values: invariant reals
    "dt": "D", "dt_": "D", "ratio": "D", "max_tau": "D", "field": "D", "field_derivative": "D",
    # integers
    "num": "I", "step": "I", "num_steps": "I", "start_step": "I", "index": "I", "index_start": "I",
    "index_end": "I", "a": "I", "max_step": "I", "num_step": "I", "end_step": "I",
}
# per function: names that mean something else there (None = not a time-related name)
TE_OVERRIDES = {
    # the parsed `times` of compute_correlations_nt are integer step arrays
    ("oqupy/system_dynamics.py", "compute_correlations_nt"): {"times": "I"},
    # delay times 0..max_tau of the bath correlation function, not absolute times
    ("oqupy/tempo.py", "_estimate_dt_dkmax_from_bath"): {"times": None, "new_times": "D"},
    # `time` of add_single is a step (int) or a time (float); it is only stored as a key
    ("oqupy/control.py", "Control.add_single"): {"time": None},
    ("oqupy/tempo.py", "_analyse_correlation"): {"times": None, "additional_times": "D",
                                                 "new_times": None},
}

# positional arguments of the callees through which times travel: role per position
TE_CALLEES = {
    "liouvillian": {1: ["T"], 4: ["T", "T", None, None]},
    "_hamiltonian": {1: ["T"], 2: ["T", None]},
    "gamma": {1: ["T"]},
    "l_op": {1: ["T"]},
    "field_eom": {3: ["T", None, None]},
    "_linearised_hamiltonian": {4: ["T", "T", None, None]},
    "_linearised_field": {4: ["T", "T", None, None]},
    "get_propagators": {4: ["D", "T", None, None], 2: ["D", None]},
    "compute_field": {5: ["T", "D", None, None, None]},
    "get_number_of_steps": {3: ["T", "T", "D"]},
    "_get_num_step": {2: ["I", "T"]},
    "_parse_times": {4: [None, "I", "D", "T"]},
    # guess_tempo_parameters: the sample times handed to the user's callables / the bath's
    # correlation function (a function of the delay)
    "hamt": {1: ["T"]},
    "hamiltonian": {1: ["T"], 2: ["T", None]},
    "operator": {1: ["T"]},
    "corr_func": {1: ["D"]},
}
# keyword arguments (of any call) / dict keys that carry a time or the step length
TE_KEYWORDS = {"start_time": "T", "end_time": "T", "dt": "D"}
TE_KEYWORDS_OF = {"quad_vec": {"a": "T", "b": "T"}}
# functions whose return value is a time / an invariant
TE_RETURNS = {"_time": "T", "time": "T", "_linearised_field": "D"}
# helpers that must see times only through collected expressions
TE_STRICT_FUNCTIONS = {"get_number_of_steps", "_time", "_linearised_field"}
# calls that hand their first argument through unchanged (conversions / validation)
TE_PASSTHROUGH = {"float", "check_convert", "_check_time", "_parse_time"}
# calls that return the time of a step
TE_TIME_OF_STEP = {"_time", "time"}
# assignments to a time-role name that only select / merge existing values (no arithmetic)
TE_ALLOW_ASSIGN = {
    ("oqupy/control.py", "Control.add_single", "times = np.append(self._control_times[pre_post], time)"),
    ("oqupy/control.py", "Control.get_controls",
     "times = np.array(self._control_times['pre'])[np.nonzero(a == step)]"),
    ("oqupy/control.py", "Control.get_controls",
     "times = np.array(self._control_times['post'])[np.nonzero(a == step)]"),
    ("oqupy/control.py", "Control.get_controls", "times = self._control_times['pre'][a == step]"),
    ("oqupy/control.py", "Control.get_controls", "times = self._control_times['post'][a == step]"),
    ("oqupy/system_dynamics.py", "compute_correlations_nt",
     "times = _parse_times(ops_times[i], max_step, dt_, start_time)"),
    ("oqupy/control.py", "Control.__init__",
     "self._control_times = {'pre': np.array([]), 'post': np.array([])}"),
}


def _te_norm(n):
    return " ".join(ast.unparse(n).split())


def _te_varname(e):
    """normalised variable name of a leaf, or None"""
    if isinstance(e, ast.Name):
        return e.id
    if isinstance(e, ast.Attribute):
        ch = attr_chain(e)
        return ch[-1].lstrip("_") if ch else None
    if isinstance(e, ast.Subscript):
        base = _te_varname(e.value)
        if base is None:
            return None
        if isinstance(e.slice, ast.Constant) and isinstance(e.slice.value, int) \
                and not isinstance(e.slice.value, bool):
            return "%s_%d" % (base, e.slice.value)
        if isinstance(e.slice, ast.Constant) and isinstance(e.slice.value, str):
            return base          # self._control_times['pre']  (elementwise)
        if isinstance(e.slice, ast.Name) and base == "control_times":
            return base          # self._control_times[pre_post]
        return None
    return None


def _te_callee(call):
    f = call.func
    if isinstance(f, ast.Name):
        return f.id
    if isinstance(f, ast.Attribute):
        return f.attr
    return None


# ids of Name nodes that are loop / comprehension variables with a time-like name whose iterable
# is not derived from a time (e.g. `for t in PROBE_TIMES`); set per function by _te_fixed_loop_vars
_TE_FIXED_IDS = set()


def _te_fixed_loop_vars(fn, roles):
    """Name nodes (ids) and (node, variable, iterable text) of loops whose variable carries a time
    role by name but runs over something that is not a time of the computation"""
    ids, loops = set(), []
    for n in ast.walk(fn):
        gens = []
        if isinstance(n, (ast.ListComp, ast.SetComp, ast.GeneratorExp, ast.DictComp)):
            gens = [(g.target, g.iter, n) for g in n.generators]
        elif isinstance(n, ast.For):
            gens = [(n.target, n.iter, n)]
        for tgt, it, scope in gens:
            names = [x.id for x in ast.walk(tgt) if isinstance(x, ast.Name)]
            tnames = [x for x in names if roles.get(x) == "T"]
            if not tnames or _te_mentions_time(it, roles):
                continue
            for x in ast.walk(scope):
                if isinstance(x, ast.Name) and x.id in tnames and isinstance(x.ctx, ast.Load):
                    ids.add(id(x))
            for v in tnames:
                loops.append((scope, v, _te_norm(it)))
    return ids, loops


class _TEWalker:
    """one expression  ->  Lean `TExpr` text + variable tables"""

    def __init__(self, roles):
        self.roles = roles
        self.fvars, self.tmask, self.ivars = [], [], []

    def role(self, name):
        base = re.sub(r"_\d+$", "", name)
        r = self.roles.get(name, self.roles.get(base))
        return r

    def fvar(self, name, is_time):
        if name not in self.fvars:
            self.fvars.append(name)
            self.tmask.append(is_time)
        return self.fvars.index(name)

    def ivar(self, name):
        if name not in self.ivars:
            self.ivars.append(name)
        return self.ivars.index(name)

    def is_int(self, e):
        if isinstance(e, ast.Constant):
            return isinstance(e.value, int) and not isinstance(e.value, bool)
        nm = _te_varname(e)
        if nm is not None:
            return self.role(nm) == "I"
        if isinstance(e, ast.BinOp) and isinstance(e.op, (ast.Add, ast.Sub, ast.Mult)):
            return self.is_int(e.left) and self.is_int(e.right)
        if isinstance(e, ast.Call):
            ch = attr_chain(e.func)
            nm = ".".join(ch) if ch else None
            if nm == "len" or (nm == "np.arange" and len(e.args) == 1 and not e.keywords):
                return True
        return False

    def iexpr(self, e):
        if isinstance(e, ast.Constant):
            return "(.ilit (%d))" % e.value
        nm = _te_varname(e)
        if nm is not None:
            return "(.ivar %d)" % self.ivar(nm)
        if isinstance(e, ast.BinOp):
            c = {ast.Add: "iadd", ast.Sub: "isub", ast.Mult: "imul"}[type(e.op)]
            return "(.%s %s %s)" % (c, self.iexpr(e.left), self.iexpr(e.right))
        if isinstance(e, ast.Call):
            ch = attr_chain(e.func)
            nm = ".".join(ch)
            if nm == "len":
                inner = _te_varname(e.args[0])
                if inner is None:
                    raise Untranslatable("len of an expression: " + _te_norm(e))
                return "(.ivar %d)" % self.ivar("len_" + inner)
            if nm == "np.arange":
                return "(.ivar %d)" % self.ivar("k")     # one element of np.arange(n)
        raise Untranslatable("integer expression " + _te_norm(e))

    def texpr(self, e):
        if self.is_int(e):
            return "(.ofI %s)" % self.iexpr(e)
        if isinstance(e, ast.Constant):
            if isinstance(e.value, float):
                p, q = e.value.as_integer_ratio()
                return "(.lit (mkRat (%d) %d))" % (p, q)
            raise Untranslatable("constant %r in a time expression" % (e.value,))
        nm = _te_varname(e)
        if nm is not None:
            if id(e) in _TE_FIXED_IDS:
                # a loop variable that runs over fixed numbers, not over times of the computation
                return "(.var %d)" % self.fvar(nm + "_fixed", False)
            r = self.role(nm)
            if r is None:
                raise Untranslatable("no role known for variable %r in a time expression" % nm)
            return "(.var %d)" % self.fvar(nm, r == "T")
        if isinstance(e, ast.BinOp):
            c = {ast.Add: "add", ast.Sub: "sub", ast.Mult: "mul", ast.Div: "div"}.get(type(e.op))
            if c is None:
                raise Untranslatable("operator in a time expression: " + _te_norm(e))
            return "(.%s %s %s)" % (c, self.texpr(e.left), self.texpr(e.right))
        if isinstance(e, ast.UnaryOp) and isinstance(e.op, ast.USub):
            return "(.neg %s)" % self.texpr(e.operand)
        if isinstance(e, ast.Call):
            ch = attr_chain(e.func)
            nm = ".".join(ch) if ch else ""
            last = _te_callee(e)
            if nm in ("np.round", "round") and len(e.args) == 1 and not e.keywords:
                return "(.round %s)" % self.texpr(e.args[0])
            if nm == "int" and len(e.args) == 1:
                a = e.args[0]
                if isinstance(a, ast.Call) and ".".join(attr_chain(a.func) or []) in ("np.round", "round"):
                    return self.texpr(a)
                return "(.trunc %s)" % self.texpr(a)
            if nm == "np.linspace" and len(e.args) == 3 and self.is_int(e.args[2]) \
                    and all(k.arg == "endpoint" and isinstance(k.value, ast.Constant)
                            and k.value.value is True for k in e.keywords):
                # element k < num-1 of numpy's linspace:  arange(num)*((stop-start)/(num-1)) + start
                a, b = self.texpr(e.args[0]), self.texpr(e.args[1])
                div = "(.ofI (.isub %s (.ilit (1))))" % self.iexpr(e.args[2])
                return "(.add %s (.mul (.ofI (.ivar %d)) (.div (.sub %s %s) %s)))" % (
                    a, self.ivar("k"), b, a, div)
            if last in TE_PASSTHROUGH and e.args:
                return self.texpr(e.args[0])
            if last in TE_TIME_OF_STEP and len(e.args) == 1 and not e.keywords \
                    and isinstance(e.func, ast.Attribute) and _te_norm(e.func.value) == "self":
                return "(.var %d)" % self.fvar("time_of_step", True)
        raise Untranslatable("time expression " + _te_norm(e)[:160])


def _te_is_arith(e):
    if isinstance(e, ast.BinOp) and isinstance(e.op, (ast.Add, ast.Sub, ast.Mult, ast.Div)):
        return True
    if isinstance(e, ast.UnaryOp) and isinstance(e.op, ast.USub):
        return True
    return False


def _te_is_wrapper(e):
    if isinstance(e, ast.Call):
        ch = attr_chain(e.func)
        nm = ".".join(ch) if ch else ""
        return nm in ("float", "int", "round", "np.round") and len(e.args) == 1
    return False


def _te_time_leaves(e, roles):
    """does the arithmetic tree rooted at `e` have a time-valued leaf (not looking into the
    arguments of opaque calls)?"""
    if _te_is_arith(e):
        kids = [e.left, e.right] if isinstance(e, ast.BinOp) else [e.operand]
        return any(_te_time_leaves(k, roles) for k in kids)
    if _te_is_wrapper(e):
        return _te_time_leaves(e.args[0], roles)
    nm = _te_varname(e)
    if nm is not None:
        base = re.sub(r"_\d+$", "", nm)
        return roles.get(nm, roles.get(base)) == "T"
    if isinstance(e, ast.Call) and _te_callee(e) in TE_TIME_OF_STEP \
            and isinstance(e.func, ast.Attribute) and _te_norm(e.func.value) == "self":
        return True
    return False


def _te_own_nodes(fn):
    """all nodes of a function body, not descending into nested function definitions
    (lambdas are descended into), with parents"""
    out = []

    def rec(node, parent):
        out.append((node, parent))
        for ch in ast.iter_child_nodes(node):
            if isinstance(ch, (ast.FunctionDef, ast.AsyncFunctionDef, ast.ClassDef)):
                continue
            rec(ch, node)
    for st in fn.body:
        if not isinstance(st, (ast.FunctionDef, ast.AsyncFunctionDef, ast.ClassDef)):
            rec(st, fn)
    return out


def _te_functions(tree):
    """(qualname, FunctionDef) for every function at any depth"""
    out = []

    def rec(node, prefix):
        for ch in ast.iter_child_nodes(node):
            if isinstance(ch, ast.ClassDef):
                rec(ch, prefix + [ch.name])
            elif isinstance(ch, (ast.FunctionDef, ast.AsyncFunctionDef)):
                out.append((".".join(prefix + [ch.name]), ch))
                rec(ch, prefix + [ch.name])
            elif isinstance(ch, (ast.If, ast.For, ast.While, ast.With, ast.Try)):
                rec(ch, prefix)
    rec(tree, [])
    return out


def _te_roles_for(rel, qual):
    roles = dict(TE_ROLES)
    for (r, q), ov in TE_OVERRIDES.items():
        if r == rel and (qual == q or qual.startswith(q + ".")):
            roles.update(ov)
    return {k: v for k, v in roles.items() if v is not None}


def _te_scan(rel, qual, fn, inherited, sites):
    """`inherited`: function index  name -> [(file, qualname, formal parameter names)]"""
    roles = _te_roles_for(rel, qual)
    global _TE_FIXED_IDS
    _TE_FIXED_IDS = _te_fixed_loop_vars(fn, roles)[0]
    nodes = _te_own_nodes(fn)
    covered = set()
    found = []          # (sink, role, expr node, stmt node)

    def add(sink, role, expr, stmt):
        found.append((sink, role, expr, stmt))
        for n in ast.walk(expr):
            covered.add(id(n))

    fname = qual.split(".")[-1]
    for node, parent in nodes:
        # --- assignments to a name that has a role ---------------------------------
        if isinstance(node, ast.AugAssign):
            nm = _te_varname(node.target)
            if nm is not None and roles.get(nm) in ("T", "D"):
                raise Untranslatable("%s:%d %s: augmented assignment to %s" % (rel, node.lineno, qual, nm))
        if isinstance(node, (ast.Assign, ast.AnnAssign)):
            tgts = node.targets if isinstance(node, ast.Assign) else [node.target]
            if len(tgts) == 1 and node.value is not None:
                nm = _te_varname(tgts[0])
                if nm is not None and isinstance(tgts[0], (ast.Name, ast.Attribute)) and nm in roles:
                    val = node.value
                    if isinstance(val, ast.List) and len(val.elts) == 1:
                        val = val.elts[0]
                    w = _TEWalker(roles)
                    try:
                        if roles[nm] == "I" and not _te_mentions_time(val, roles):
                            continue        # plain integer bookkeeping
                        w.texpr(val)
                        add(nm, roles[nm], val, node)
                    except Untranslatable as ex:
                        if _te_time_leaves(val, roles) and _te_is_arith(val):
                            raise Untranslatable("%s:%d %s: %s" % (rel, node.lineno, qual, ex))
                        if (rel, qual, _te_norm(node)) in TE_ALLOW_ASSIGN:
                            pass
                        elif roles[nm] == "T":
                            raise Untranslatable(
                                "%s:%d %s: assignment to the time-related name `%s` is not "
                                "understood: %s  (%s)" % (rel, node.lineno, qual, nm,
                                                          _te_norm(node)[:120], ex))
        # --- calls ---------------------------------------------------------------
        if isinstance(node, ast.Call):
            cal = _te_callee(node)
            table = TE_CALLEES.get(cal)
            if cal == "add" and isinstance(node.func, ast.Attribute) \
                    and _te_norm(node.func.value).endswith("dynamics"):
                table = {2: ["T", None], 3: ["T", None, None]}
            if cal == "append" and isinstance(node.func, ast.Attribute) \
                    and _te_norm(node.func.value) == "self._results['time']":
                table = {1: ["T"]}
            if (rel, qual, _te_norm(node)) in TE_PROBES:
                table = None
            if table is not None and not any(isinstance(a, ast.Starred) for a in node.args):
                pos = table.get(len(node.args))
                if pos is None and node.args and not node.keywords:
                    raise Untranslatable("%s:%d %s: call of %s with %d positional arguments"
                                         % (rel, node.lineno, qual, cal, len(node.args)))
                for i, r in enumerate(pos or []):
                    if r is not None:
                        add("%s_arg%d" % (cal.lstrip("_"), i), r, node.args[i], node)
            # calls between functions of the scanned files: the role of the FORMAL parameter is
            # the sink of the ACTUAL argument (a duration bound to a parameter that the callee
            # uses as an absolute time gets role `time` and fails its obligation)
            if inherited is not None and table is None and cal in inherited \
                    and cal not in TE_CALLEES and not cal.startswith("__"):
                cands = [c for c in inherited[cal] if c[0] == rel] or inherited[cal]
                sigs = {tuple(c[2]) for c in cands}
                if len(sigs) == 1:
                    formals = list(sigs)[0]
                    croles = _te_roles_for(cands[0][0], cands[0][1])
                    binds = []
                    for i, a in enumerate(node.args):
                        if isinstance(a, ast.Starred) or i >= len(formals):
                            break
                        binds.append((formals[i], a))
                    for kw in node.keywords:
                        if kw.arg in formals and kw.arg not in TE_KEYWORDS:
                            binds.append((kw.arg, kw.value))
                    for f, a in binds:
                        r = croles.get(f)
                        if r is None or (isinstance(a, ast.Constant) and a.value is None):
                            continue
                        if r == "I" and not _te_mentions_time(a, roles):
                            continue            # plain integer bookkeeping
                        try:
                            _TEWalker(roles).texpr(a)
                        except Untranslatable as ex:
                            if r == "T" or _te_mentions_time(a, roles):
                                raise Untranslatable(
                                    "%s:%d %s: argument `%s` bound to the %s parameter `%s` of %s: %s"
                                    % (rel, node.lineno, qual, _te_norm(a)[:80],
                                       "time" if r == "T" else "invariant", f, cal, ex))
                            continue
                        add("%s_param_%s" % (cal.lstrip("_"), f), r, a, node)
            kws = dict(TE_KEYWORDS)
            kws.update(TE_KEYWORDS_OF.get(cal, {}))
            for kw in node.keywords:
                if kw.arg in kws and not (isinstance(kw.value, ast.Constant) and kw.value.value is None):
                    add("%s_kw_%s" % ((cal or "call").lstrip("_"), kw.arg), kws[kw.arg], kw.value, node)
        # --- closeness tests and truthiness of times ------------------------------------------
        #  np.isclose(x, y) is |x - y| <= atol + rtol*|y|: its tolerance scales with the operands,
        #  which therefore must not be absolute times;  `times.any()` compares with the absolute
        #  value 0.0.  Both are collected as values that must be shift invariant.
        if isinstance(node, ast.Call):
            chn = attr_chain(node.func)
            dotted = ".".join(chn) if chn else ""
            if dotted in ("np.isclose", "np.allclose", "math.isclose") and len(node.args) >= 2:
                for a in node.args[:2]:
                    if _te_time_leaves(a, roles):
                        add("isclose_scale", "D", a, node)
            if isinstance(node.func, ast.Attribute) and node.func.attr in ("any", "all") \
                    and not node.args and _te_time_leaves(node.func.value, roles):
                add("truth_of_time", "D", node.func.value, node)
        if isinstance(node, (ast.If, ast.While, ast.IfExp)) and _te_time_leaves(node.test, roles) \
                and isinstance(node.test, (ast.Name, ast.Attribute, ast.Subscript)):
            add("truth_of_time", "D", node.test, node)
        # --- dict literals that carry the parameters on -------------------------------
        if isinstance(node, ast.Dict):
            for k, v in zip(node.keys, node.values):
                if isinstance(k, ast.Constant) and k.value in TE_KEYWORDS:
                    add("dict_%s" % k.value, TE_KEYWORDS[k.value], v, node)
        # --- return values of the time functions -----------------------------------------
        if isinstance(node, ast.Return) and node.value is not None and fname in TE_RETURNS:
            if fname != "time" or qual == "PtTebd.time":
                add("ret", TE_RETURNS[fname], node.value, node)
        # --- comparisons of two times ----------------------------------------------------
        if isinstance(node, ast.Compare) and len(node.ops) == 1:
            l, r = node.left, node.comparators[0]
            tl, tr = _te_time_leaves(l, roles), _te_time_leaves(r, roles)
            other = None if tl == tr else (r if tl else l)
            mixed = False
            if other is not None:
                # a time compared with a float-valued expression that is not a time (a duration,
                # a fixed number): both sides must move alike, so lhs - rhs must be invariant.
                # (a time-named variable compared with an INTEGER is a step index in an int
                # branch, e.g. `times > max_step` in _parse_times)
                w = _TEWalker(roles)
                try:
                    mixed = not w.is_int(other) and not (
                        isinstance(other, ast.Constant) and other.value is None)
                    if mixed:
                        w.texpr(other)
                except Untranslatable:
                    mixed = False
            if (tl and tr) or mixed:
                diff = ast.BinOp(left=l, op=ast.Sub(), right=r)
                ast.copy_location(diff, node)
                add("cmp", "D", diff, node)
    # --- safety net -----------------------------------------------------------------
    for node, parent in nodes:
        if _te_is_arith(node) and not (_te_is_arith(parent) or _te_is_wrapper(parent)):
            if _te_time_leaves(node, roles) and id(node) not in covered:
                raise Untranslatable(
                    "%s:%d %s: arithmetic over a time that no known sink accounts for: %s"
                    % (rel, node.lineno, qual, _te_norm(node)[:160]))
    # --- the pure time helpers: a time may not be used anywhere but in a collected expression
    #     (e.g. a tolerance that scales with abs(end_time) would make the step count depend on
    #     the origin without any arithmetic on a time name)
    if fname in TE_STRICT_FUNCTIONS:
        for node, parent in nodes:
            if isinstance(node, (ast.Name, ast.Attribute)) and isinstance(node.ctx, ast.Load) \
                    and not isinstance(parent, ast.Attribute):
                nm = _te_varname(node)
                if nm is not None and roles.get(nm) == "T" and id(node) not in covered:
                    raise Untranslatable(
                        "%s:%d %s: the time `%s` is used outside the collected time expressions: %s"
                        % (rel, node.lineno, qual, nm, _te_norm(parent)[:160]))
    # --- emit ---------------------------------------------------------------------
    for sink, role, expr, stmt in found:
        w = _TEWalker(roles)
        try:
            term = w.texpr(expr)
        except Untranslatable as ex:
            raise Untranslatable("%s:%d %s: %s" % (rel, getattr(expr, "lineno", stmt.lineno), qual, ex))
        sites.append(dict(rel=rel, qual=qual, line=getattr(expr, "lineno", stmt.lineno), sink=sink,
                          role="time" if role == "T" else "inv", src=_te_norm(expr),
                          stmt=_te_norm(stmt)[:200], fvars=w.fvars, tmask=w.tmask, ivars=w.ivars,
                          term=term))


def _te_mentions_time(e, roles):
    for n in ast.walk(e):
        nm = _te_varname(n) if isinstance(n, (ast.Name, ast.Attribute)) else None
        if nm is not None and roles.get(nm) == "T":
            return True
    return False


def _te_lean_ident(s):
    return re.sub(r"[^A-Za-z0-9_]", "_", s)



# --- probes: a user callable evaluated at a FIXED ABSOLUTE time ---------------------------------
# (input validation in constructors).  Such a time does not move with the origin, so the only
# things that may survive of the returned value are a raise-or-not validation and a shape.

TE_PROBE_FILES = ["oqupy/system.py", "oqupy/tempo.py", "oqupy/pt_tempo.py",
                  "oqupy/system_dynamics.py", "oqupy/control.py", "oqupy/gradient.py"]
TE_NOT_USER_CALLEES = {
    "float", "int", "complex", "max", "min", "abs", "range", "len", "isinstance", "list",
    "print", "round", "expm", "format", "str", "tuple", "sum", "pow", "check_convert",
    "check_true", "check_isinstance", "sqrt", "exp", "append", "extend", "insert", "update",
    "warn", "join"}
TE_NOT_USER_ROOTS = {"np", "opr", "integrate", "tn", "scipy", "warnings", "os", "math", "linalg"}
# converters / validators: the value goes in, what comes out is judged by what happens to it
TE_VALIDATORS = {"_check_hamiltonian", "float", "complex", "int", "np.array", "np.asarray"}


def _te_float_consts(fn):
    """names bound exactly once, to a float literal, in this function"""
    seen = {}
    for n in ast.walk(fn):
        if isinstance(n, ast.Assign) and len(n.targets) == 1 and isinstance(n.targets[0], ast.Name):
            seen.setdefault(n.targets[0].id, []).append(n.value)
    aug = {n.target.id for n in ast.walk(fn)
           if isinstance(n, ast.AugAssign) and isinstance(n.target, ast.Name)}
    return {k: v[0].value for k, v in seen.items()
            if len(v) == 1 and k not in aug and isinstance(v[0], ast.Constant)
            and isinstance(v[0].value, float)}


def _te_module_consts(tree):
    """module level names bound to a float literal or a tuple/list of float literals"""
    out = {}
    for st in tree.body:
        if isinstance(st, ast.Assign) and len(st.targets) == 1 and isinstance(st.targets[0], ast.Name):
            v = st.value
            if isinstance(v, ast.Constant) and isinstance(v.value, float):
                out[st.targets[0].id] = _te_norm(v)
            elif isinstance(v, (ast.Tuple, ast.List)) and v.elts and all(
                    isinstance(x, ast.Constant) and isinstance(x.value, (int, float))
                    and not isinstance(x.value, bool) for x in v.elts) \
                    and any(isinstance(x.value, float) for x in v.elts):
                out[st.targets[0].id] = _te_norm(v)
    return out


def _te_probe_time(call, consts, params, fixed=None, modconsts=None):
    """source text of the fixed time a call hands to a (possibly user supplied) callable"""
    ch = attr_chain(call.func)
    if ch is None:
        return None
    if ch[0] in TE_NOT_USER_ROOTS or ch[-1] in TE_NOT_USER_CALLEES or ch[-1][:1].isupper():
        return None
    for a in call.args:
        if isinstance(a, ast.Constant) and isinstance(a.value, float):
            return repr(a.value)
        if isinstance(a, ast.Name) and a.id in consts:
            return "%s = %r" % (a.id, consts[a.id])
        if isinstance(a, ast.Name) and fixed and id(a) in fixed:
            return "%s in %s" % (a.id, fixed[id(a)])
        if isinstance(a, ast.Name) and modconsts and a.id in modconsts and a.id not in params:
            return "%s = %s" % (a.id, modconsts[a.id])
        if isinstance(a, ast.Starred) and len(ch) == 1 and ch[0] in params:
            return "*" + _te_norm(a.value)      # a parameter called with forwarded arguments
    return None


def _te_kept(node, parent_of, fn, depth=0):
    """what survives of the value of `node`"""
    if depth > 6:
        return {"unknown"}
    par = parent_of.get(id(node))
    if par is None or isinstance(par, ast.Expr):
        return {"discard"}
    if isinstance(par, ast.Call):
        if par.func is node:
            return {"value"}                    # the kept object is itself called later
        ch = attr_chain(par.func)
        nm = ".".join(ch) if ch else ""
        if nm in TE_VALIDATORS:
            up = _te_kept(par, parent_of, fn, depth + 1)
            return {("validate" if k == "discard" else k) for k in up}
        if isinstance(par.func, ast.Name):
            # handed to a plain function: what survives is what survives of its result
            up = _te_kept(par, parent_of, fn, depth + 1)
            return {("unknown" if k == "discard" else k) for k in up}
        return {"unknown"}
    if isinstance(par, ast.Attribute) and par.value is node:
        if par.attr == "shape":
            return {"shape"}
        if par.attr == "dtype":
            return {"dtype"}
        return {"unknown"}
    if isinstance(par, ast.Return):
        return {"value"}
    if isinstance(par, (ast.List, ast.Tuple, ast.ListComp, ast.GeneratorExp, ast.Subscript,
                        ast.BinOp, ast.UnaryOp)):
        return _te_kept(par, parent_of, fn, depth + 1)       # containers / arithmetic hand it on
    if isinstance(par, (ast.Assign, ast.AnnAssign)):
        tgts = par.targets if isinstance(par, ast.Assign) else [par.target]
        if len(tgts) == 1 and isinstance(tgts[0], ast.Name):
            v = tgts[0].id
            out = set()
            for n in ast.walk(fn):
                if isinstance(n, ast.Name) and n.id == v and isinstance(n.ctx, ast.Load):
                    out |= _te_kept(n, parent_of, fn, depth + 1)
            return out or {"discard"}
        return {"value"}
    return {"unknown"}


def _te_probes(src):
    probes = []
    for rel in TE_PROBE_FILES:
        tree = src.tree(rel)
        modconsts = _te_module_consts(tree)
        for qual, fn in _te_functions(tree):
            consts = _te_float_consts(fn)
            params = {a.arg for a in fn.args.args}
            roles = _te_roles_for(rel, qual)
            fixed = {}
            for n in ast.walk(fn):
                gens = []
                if isinstance(n, (ast.ListComp, ast.SetComp, ast.GeneratorExp, ast.DictComp)):
                    gens = [(g.target, g.iter, n) for g in n.generators]
                elif isinstance(n, ast.For):
                    gens = [(n.target, n.iter, n)]
                for tgt, it, scope in gens:
                    # loop variables running over literal numbers or a module constant
                    lit = isinstance(it, (ast.Tuple, ast.List)) and it.elts and all(
                        isinstance(x, ast.Constant) and isinstance(x.value, (int, float))
                        for x in it.elts)
                    mod = isinstance(it, ast.Name) and it.id in modconsts and it.id not in params
                    if not (lit or mod):
                        continue
                    names = {x.id for x in ast.walk(tgt) if isinstance(x, ast.Name)}
                    for x in ast.walk(scope):
                        if isinstance(x, ast.Name) and x.id in names and isinstance(x.ctx, ast.Load):
                            fixed[id(x)] = _te_norm(it) + (" = " + modconsts[it.id] if mod else "")
            parent_of = {}
            for n in ast.walk(fn):
                for ch in ast.iter_child_nodes(n):
                    parent_of[id(ch)] = n
            own = [n for n, _ in _te_own_nodes(fn)]
            for n in own:
                if not isinstance(n, ast.Call):
                    continue
                t = _te_probe_time(n, consts, params, fixed, modconsts)
                if t is None:
                    continue
                kept = sorted(_te_kept(n, parent_of, fn))
                probes.append(dict(rel=rel, qual=qual, line=n.lineno, src=_te_norm(n), time=t,
                                   kept=kept))
    return probes

# sites that the theorems / the correspondence refer to by name: they must exist
TE_REQUIRED = [
    "TimeDependentSystem_get_propagators_propagators__t_1",
    "TimeDependentSystem_get_propagators_propagators__liouvillian_arg0_1",
    "TimeDependentSystem_get_propagators_propagators__liouvillian_arg0_2",
    "TimeDependentSystemWithField_get_propagators_propagators__t_1",
    "Tempo__time__ret", "MeanFieldTempo__time__ret", "PtTebd_time__ret",
    "MeanFieldTempo__compute_field__field_eom_arg0_2",
    "Control_get_controls__a_1", "Control_get_controls__a_2",
    "_parse_times__index", "_parse_times__index_start", "_parse_times__index_end",
    "compute_correlations_nt__times2",
    "compute_dynamics_with_field__t",
    "get_number_of_steps__ratio",
]


@fragment("TimeExprs")
def frag_timeexprs(src):
    sites = []
    index = {}
    for rel, only in TE_FILES:
        for qual, fn in _te_functions(src.tree(rel)):
            formals = [a.arg for a in fn.args.args]
            if formals[:1] in (["self"], ["cls"]):
                formals = formals[1:]
            index.setdefault(qual.split(".")[-1], []).append((rel, qual, formals))
    for rel, only in TE_FILES:
        tree = src.tree(rel)
        for qual, fn in _te_functions(tree):
            if only is not None and qual not in only:
                continue
            if any(TE_SKIP_FUNCTIONS(p) for p in qual.split(".")) \
                    or qual.split(".")[0] in TE_SKIP_CLASSES:
                continue
            _te_scan(rel, qual, fn, index, sites)
    # names: <qual>__<sink>[_n]
    count = {}
    for s in sites:
        base = _te_lean_ident(s["qual"]) + "__" + _te_lean_ident(s["sink"])
        count[base] = count.get(base, 0) + 1
    seen = {}
    for s in sites:
        base = _te_lean_ident(s["qual"]) + "__" + _te_lean_ident(s["sink"])
        if count[base] > 1:
            seen[base] = seen.get(base, 0) + 1
            s["name"] = "%s_%d" % (base, seen[base])
        else:
            s["name"] = base
    names = [s["name"] for s in sites]
    missing = [n for n in TE_REQUIRED if n not in names]
    if missing:
        raise Untranslatable("expected time expressions are no longer found: %s" % ", ".join(missing))
    out = ["open OQuPyVerif.TimeShift\n"]
    lstr = lambda x: '"' + x.replace("\\", "\\\\").replace('"', '\\"') + '"'
    for s in sites:
        out.append(
            "/-- %s:%d  %s  [%s -> %s]:  %s -/\n"
            "def %s : Site :=\n"
            "  { name := %s, file := %s, line := %d,\n"
            "    src := %s,\n"
            "    sink := %s,\n"
            "    fvars := [%s], tmask := [%s], ivars := [%s], role := .%s,\n"
            "    expr := %s }\n"
            % (s["rel"], s["line"], s["qual"], s["sink"], s["role"], s["src"].replace("-/", "- /"),
               "s_" + s["name"], lstr(s["name"]), lstr(s["rel"]), s["line"], lstr(s["src"]),
               lstr(s["sink"] + " in " + s["qual"]),
               ", ".join(lstr(v) for v in s["fvars"]),
               ", ".join("true" if b else "false" for b in s["tmask"]),
               ", ".join(lstr(v) for v in s["ivars"]), s["role"], s["term"]))
    out.append("/-- every time expression found in %s -/\ndef sites : List Site :=\n  [%s]\n"
               % (", ".join(r for r, _ in TE_FILES),
                  ",\n   ".join("s_" + s["name"] for s in sites)))
    probes = _te_probes(src)
    if not probes:
        raise Untranslatable("no evaluation of a user callable at a fixed time found any more "
                             "(the constructors of the time dependent systems used to probe H(1.0))")
    pn = []
    for i, p in enumerate(probes):
        nm = "p_%s_%d" % (_te_lean_ident(p["qual"]), i + 1)
        pn.append(nm)
        out.append(
            "/-- %s:%d  %s evaluates a callable at the fixed time %s:  %s   kept: %s -/\n"
            "def %s : Probe :=\n"
            "  { name := %s, file := %s, line := %d,\n"
            "    src := %s, time := %s,\n"
            "    kept := [%s] }\n"
            % (p["rel"], p["line"], p["qual"], p["time"], p["src"].replace("-/", "- /"),
               ", ".join(p["kept"]), nm, lstr(nm[2:]), lstr(p["rel"]), p["line"], lstr(p["src"]),
               lstr(p["time"]), ", ".join("." + k for k in p["kept"])))
    out.append("/-- every evaluation of a (user) callable at a time that does not move with the "
               "origin -/\ndef probes : List Probe :=\n  [%s]\n" % ",\n   ".join(pn))
    return "\n".join(out)
# end of TimeExprs


# ---------------------------------------------------------------------------
# GradWiring  (C08):  tensor-network wiring of the adjoint gradient
# ---------------------------------------------------------------------------
#
# Grammar understood (anything else -> Untranslatable):
#  * `_apply_system_superoperator`: the five wiring statements of its body;
#  * `_apply_pt_mpos`: one loop over the environments
#        for i, pt_mpo in enumerate(pt_mpos):                       (list order)
#    or  <v> = list(enumerate(pt_mpos)); if reverse: <v>.reverse(); for i, pt_mpo in <v>:
#    whose body is the seven wiring statements (axis numbers free), optionally followed by
#        if reverse: current_node.reorder_edges(current_edges)
#  * `_get_pt_mpos_backprop`: a loop of `pt_mpo = np.swapaxes(pt_mpo, a, b)` statements;
#  * `_apply_derivative_pt_mpos`: the statement sequence of the present source (axis numbers free);
#  * `compute_gradient_and_dynamics`: forward loop, first adjoint tensor, backward loop as
#    sequences of known statements (each mapped to an op tag; unknown statement -> error);
#  * `_chain_rule` / `state_gradient`: the four edge connections of `combine_derivs`, which
#    propagator / derivative goes (transposed or not) into which slot for the entries 2i, 2i+1,
#    and which results `state_gradient` returns under which key.

GW_PREAMBLE = '''/-- roles of the four axes of an MPO tensor in one `_apply_pt_mpos`-style contraction:
    `bondIn` is joined to the current bond leg, `sysIn` to the current system leg,
    `bondOut` / `sysOut` become the new bond / system leg -/
structure MpoAxes where
  bondIn : Nat
  bondOut : Nat
  sysIn : Nat
  sysOut : Nat
  deriving DecidableEq, Repr

/-- statements of the forward loop, of the construction of one adjoint tensor, and of the
    backward loop of `compute_gradient_and_dynamics`; integer arguments are offsets relative
    to the loop variable `step` (for `firstAdjoint`: relative to `num_steps`) -/
inductive GOp where
  | getControls | applyPre | breakIfLast | record | progress | applyPost
  | storeForward            -- forwardprop_derivs_list.append(copy of current_node)
  | getPropagators | getMpos | storeMpos
  | applyP1 | applyMpo | applyP2
  | recordFinal
  | getMposBackprop         -- pt_mpos = _get_pt_mpos_backprop(mpo_list, step)
  | applyP2T | applyMpoBack | applyP1T | applyPostT | applyPreT
  | useForward (offset : Int)   -- forwardprop_tensor = forwardprop_derivs_list[step + offset]
  | useMpos (offset : Int)      -- pt_mpos = mpo_list[step + offset]
  | copyBack                -- backprop_tensor = copy of current_node
  | applyDerivMpos          -- _apply_derivative_pt_mpos(forwardprop_tensor, fwd_edges, pt_mpos)
  | joinBonds               -- for i: fwd_edges[i] ^ backprop_tensor[i]
  | contractForwardBack     -- deriv = deriv_forwardprop_tensor @ backprop_tensor
  | appendDeriv
  deriving DecidableEq, Repr

/-- which array a slot of `combine_derivs` receives in `_chain_rule` -/
inductive PropArg where
  | firstProp | secondProp | firstDeriv | secondDeriv
  deriving DecidableEq, Repr
'''


def _gw_norm(s):
    return " ".join(ast.unparse(s).split())


def _gw_body(fn):
    return _cc_strip(fn.body)


def _gw_int_sub(text, prefix):
    """`<prefix>[<int>]` -> int"""
    if not (text.startswith(prefix + "[") and text.endswith("]")):
        raise Untranslatable("expected %s[<axis>], found %s" % (prefix, text))
    try:
        return int(text[len(prefix) + 1:-1])
    except ValueError:
        raise Untranslatable("axis of %s is not an integer constant" % text)


def _gw_axes(lines, where, node="pt_mpo_node", bond_edge="current_edges[i]"):
    """the seven wiring statements of one MPO application"""
    if len(lines) != 7:
        raise Untranslatable("%s: expected 7 wiring statements, found %d" % (where, len(lines)))
    want_fixed = {4: "current_node = current_node @ %s" % node,
                  5: "%s = new_bond_edge" % bond_edge,
                  6: "current_edges[-1] = new_sys_edge"}
    for k, w in want_fixed.items():
        if lines[k] != w:
            raise Untranslatable("%s: statement %r, expected %r" % (where, lines[k], w))
    pre = "new_bond_edge = "
    if not lines[0].startswith(pre) or not lines[1].startswith("new_sys_edge = "):
        raise Untranslatable("%s: new edge selection" % where)
    bond_out = _gw_int_sub(lines[0][len(pre):], node)
    sys_out = _gw_int_sub(lines[1][len("new_sys_edge = "):], node)
    pre = bond_edge + " ^ "
    if not lines[2].startswith(pre) or not lines[3].startswith("current_edges[-1] ^ "):
        raise Untranslatable("%s: edge connections" % where)
    bond_in = _gw_int_sub(lines[2][len(pre):], node)
    sys_in = _gw_int_sub(lines[3][len("current_edges[-1] ^ "):], node)
    if sorted([bond_in, bond_out, sys_in, sys_out]) != [0, 1, 2, 3]:
        raise Untranslatable("%s: the four axes are not a permutation of 0..3" % where)
    return bond_in, bond_out, sys_in, sys_out


def _gw_axes_lean(ax):
    return "{ bondIn := %d, bondOut := %d, sysIn := %d, sysOut := %d }" % ax


def _gw_sysop(src, out):
    rel = "oqupy/system_dynamics.py"
    fn = src.function(rel, "_apply_system_superoperator")
    texts = [_gw_norm(s) for s in _gw_body(fn)]
    if len(texts) != 7 or texts[0] != "if sup_op is None: return (current_node, current_edges)" \
            or texts[1] not in ("sup_op_node = tn.Node(sup_op.T)", "sup_op_node = tn.Node(sup_op)") \
            or texts[4] != "current_node = current_node @ sup_op_node" \
            or texts[5] != "current_edges[-1] = new_sys_edge" \
            or texts[6] != "return (current_node, current_edges)":
        raise Untranslatable("_apply_system_superoperator: unexpected shape %r" % texts)
    m1 = {"current_edges[-1] ^ sup_op_node[0]": 0, "current_edges[-1] ^ sup_op_node[1]": 1}.get(texts[2])
    m2 = {"new_sys_edge = sup_op_node[0]": 0, "new_sys_edge = sup_op_node[1]": 1}.get(texts[3])
    if m1 is None or m2 is None or m1 == m2:
        raise Untranslatable("_apply_system_superoperator: edge wiring")
    transposed = texts[1].endswith(".T)")
    # the node holds N = sup_op.T (or sup_op); new[s'] = sum_s cur[s] * N[.., ..] with the
    # contracted index of N in position m1:  acts as the matrix `sup_op` iff exactly one of
    # (transposed, contract-is-axis-1) holds
    acts_as_matrix = (transposed and m1 == 0) or ((not transposed) and m1 == 1)
    out.append("/-- %s:%d  _apply_system_superoperator(node, edges, M): the new state leg is\n"
               "    `new[s'] = Σ_s M[s', s] * cur[s]` (true) or `Σ_s M[s, s'] * cur[s]` (false) -/\n"
               "def sysOpActsAsMatrix : Bool := %s\n"
               % (rel, fn.lineno, "true" if acts_as_matrix else "false"))


def _gw_apply_pt_mpos(src, out):
    rel = "oqupy/system_dynamics.py"
    fn = src.function(rel, "_apply_pt_mpos")
    params = [a.arg for a in fn.args.args]
    body = _gw_body(fn)
    texts = [_gw_norm(s) for s in body]
    if params == ["current_node", "current_edges", "pt_mpos"]:
        has_reverse = False
    elif params == ["current_node", "current_edges", "pt_mpos", "reverse"]:
        d = fn.args.defaults
        if len(d) != 1 or not isinstance(d[0], ast.Constant) or d[0].value is not False:
            raise Untranslatable("_apply_pt_mpos: `reverse` must default to False")
        has_reverse = True
    else:
        raise Untranslatable("_apply_pt_mpos: parameters %r" % params)
    if not texts or texts[-1] != "return (current_node, current_edges)":
        raise Untranslatable("_apply_pt_mpos: does not end in `return current_node, current_edges`")
    body, texts = body[:-1], texts[:-1]
    reorders = False
    if has_reverse and texts and texts[-1] == "if reverse: current_node.reorder_edges(current_edges)":
        reorders = True
        body, texts = body[:-1], texts[:-1]
    if not has_reverse:
        if len(body) != 1:
            raise Untranslatable("_apply_pt_mpos: expected a single loop, found %r" % texts)
        loop = body[0]
        if not (isinstance(loop, ast.For) and _gw_norm(loop.target) == "(i, pt_mpo)"
                and _gw_norm(loop.iter) == "enumerate(pt_mpos)" and not loop.orelse):
            raise Untranslatable("_apply_pt_mpos: loop header")
    else:
        if len(body) != 3 or not isinstance(body[0], ast.Assign) or len(body[0].targets) != 1 \
                or not isinstance(body[0].targets[0], ast.Name) \
                or _gw_norm(body[0].value) != "list(enumerate(pt_mpos))":
            raise Untranslatable("_apply_pt_mpos: expected `<v> = list(enumerate(pt_mpos))`")
        v = body[0].targets[0].id
        if texts[1] != "if reverse: %s.reverse()" % v:
            raise Untranslatable("_apply_pt_mpos: expected `if reverse: %s.reverse()`" % v)
        loop = body[2]
        if not (isinstance(loop, ast.For) and _gw_norm(loop.target) == "(i, pt_mpo)"
                and _gw_norm(loop.iter) == v and not loop.orelse):
            raise Untranslatable("_apply_pt_mpos: loop header")
    lb = [_gw_norm(s) for s in _cc_strip(loop.body)]
    if lb[:2] != ["if pt_mpo is None: continue", "pt_mpo_node = tn.Node(pt_mpo)"]:
        raise Untranslatable("_apply_pt_mpos: loop body head %r" % lb[:2])
    ax = _gw_axes(lb[2:], "_apply_pt_mpos")
    out.append("/-- %s:%d  _apply_pt_mpos: axis roles of each MPO tensor; the environments are visited\n"
               "    in list order, or in reversed list order when called with `reverse=True` -/\n"
               "def applyAxes : MpoAxes := %s\n" % (rel, fn.lineno, _gw_axes_lean(ax)))
    out.append("/-- `_apply_pt_mpos` has a `reverse` option (default False) -/\n"
               "def applyHasReverse : Bool := %s\n" % ("true" if has_reverse else "false"))
    out.append("/-- with `reverse=True` the node's axes are put back into the order of `current_edges`\n"
               "    (bond legs in list order, then the system leg) before returning -/\n"
               "def applyReverseReorders : Bool := %s\n" % ("true" if reorders else "false"))
    return has_reverse


def _gw_backprop_mpos(src, out):
    rel = "oqupy/system_dynamics.py"
    fn = src.function(rel, "_get_pt_mpos_backprop")
    if [a.arg for a in fn.args.args] != ["mpo_list", "step"]:
        raise Untranslatable("_get_pt_mpos_backprop: parameters")
    body = _gw_body(fn)
    texts = [_gw_norm(s) for s in body]
    if len(body) != 4 or texts[0] != "pt_mpos = mpo_list[step]" or texts[1] != "pt_mpos_rev = []" \
            or texts[3] != "return pt_mpos_rev" or not isinstance(body[2], ast.For) \
            or _gw_norm(body[2].target) != "pt_mpo" or _gw_norm(body[2].iter) != "pt_mpos" \
            or body[2].orelse:
        raise Untranslatable("_get_pt_mpos_backprop: unexpected shape %r" % texts)
    lb = [_gw_norm(s) for s in _cc_strip(body[2].body)]
    if not lb or lb[-1] != "pt_mpos_rev.append(pt_mpo)":
        raise Untranslatable("_get_pt_mpos_backprop: loop does not append pt_mpo last")
    swaps = []
    for t in lb[:-1]:
        pre = "pt_mpo = np.swapaxes(pt_mpo, "
        if not (t.startswith(pre) and t.endswith(")")):
            raise Untranslatable("_get_pt_mpos_backprop: unexpected statement " + t)
        try:
            a, b = [int(x) for x in t[len(pre):-1].split(",")]
        except ValueError:
            raise Untranslatable("_get_pt_mpos_backprop: swapaxes arguments in " + t)
        if not (0 <= a <= 3 and 0 <= b <= 3):
            raise Untranslatable("_get_pt_mpos_backprop: axis out of range in " + t)
        swaps.append((a, b))
    out.append("/-- %s:%d  _get_pt_mpos_backprop: the MPO tensors stored for `step` (list order kept),\n"
               "    each with these `np.swapaxes` applied in this order -/\n"
               "def backSwaps : List (Nat × Nat) := [%s]\n"
               % (rel, fn.lineno, ", ".join("(%d, %d)" % s for s in swaps)))


def _gw_derivative_mpos(src, out):
    rel = "oqupy/system_dynamics.py"
    fn = src.function(rel, "_apply_derivative_pt_mpos")
    if [a.arg for a in fn.args.args] != ["current_node", "current_edges", "pt_mpos"]:
        raise Untranslatable("_apply_derivative_pt_mpos: parameters")
    body = [s for s in _gw_body(fn)
            if not (isinstance(s, ast.Assign) and isinstance(s.targets[0], ast.Attribute)
                    and s.targets[0].attr == "name")]          # edge names have no effect
    texts = [_gw_norm(s) for s in body]
    if len(texts) != 15:
        raise Untranslatable("_apply_derivative_pt_mpos: %d statements, expected 15: %r"
                             % (len(texts), texts))
    if texts[0] != "prev_prop_edge = current_edges[-1]" or texts[1] != "pt_mpo_node = tn.Node(pt_mpos[0])":
        raise Untranslatable("_apply_derivative_pt_mpos: head")
    first = {}
    for t, key in zip(texts[2:5], ("pre_mpo_edge", "new_bond_edge", "post_mpo_edge")):
        if not t.startswith(key + " = "):
            raise Untranslatable("_apply_derivative_pt_mpos: expected assignment to %s, found %s" % (key, t))
        first[key] = _gw_int_sub(t[len(key) + 3:], "pt_mpo_node")
    if not texts[5].startswith("current_edges[0] ^ "):
        raise Untranslatable("_apply_derivative_pt_mpos: first bond connection")
    first_in = _gw_int_sub(texts[5][len("current_edges[0] ^ "):], "pt_mpo_node")
    if texts[6:9] != ["current_node = current_node @ pt_mpo_node", "current_edges = current_node[:]",
                      "bond_edges = [new_bond_edge]"]:
        raise Untranslatable("_apply_derivative_pt_mpos: after the first tensor: %r" % texts[6:9])
    if sorted([first_in, first["new_bond_edge"], first["pre_mpo_edge"], first["post_mpo_edge"]]) != [0, 1, 2, 3]:
        raise Untranslatable("_apply_derivative_pt_mpos: axes of the first tensor")
    loop = body[9]
    if not (isinstance(loop, ast.For) and _gw_norm(loop.target) == "(i, pt_mpo)"
            and _gw_norm(loop.iter) == "enumerate(pt_mpos[1:])" and not loop.orelse):
        raise Untranslatable("_apply_derivative_pt_mpos: loop over the remaining environments")
    lb = [_gw_norm(s) for s in _cc_strip(loop.body)
          if not (isinstance(s, ast.Assign) and isinstance(s.targets[0], ast.Attribute)
                  and s.targets[0].attr == "name")]
    if len(lb) != 9 or lb[0] != "if pt_mpo is None: continue" or lb[1] != "pt_mpo_node = tn.Node(pt_mpo)" \
            or lb[3] != "bond_edges.append(new_bond_edge)" \
            or lb[7] != "current_node = current_node @ pt_mpo_node" \
            or lb[8] != "current_edges = current_node[:]":
        raise Untranslatable("_apply_derivative_pt_mpos: loop body %r" % lb)
    if not lb[2].startswith("new_bond_edge = ") or not lb[4].startswith("post_mpo_edge = ") \
            or not lb[5].startswith("current_edges[0] ^ ") or not lb[6].startswith("current_edges[-1] ^ "):
        raise Untranslatable("_apply_derivative_pt_mpos: loop wiring %r" % lb)
    rest = (_gw_int_sub(lb[5][len("current_edges[0] ^ "):], "pt_mpo_node"),
            _gw_int_sub(lb[2][len("new_bond_edge = "):], "pt_mpo_node"),
            _gw_int_sub(lb[6][len("current_edges[-1] ^ "):], "pt_mpo_node"),
            _gw_int_sub(lb[4][len("post_mpo_edge = "):], "pt_mpo_node"))
    if sorted(rest) != [0, 1, 2, 3]:
        raise Untranslatable("_apply_derivative_pt_mpos: axes of the remaining tensors")
    if texts[10:] != ["current_edges[-1] = post_mpo_edge", "current_edges[-2] = pre_mpo_edge",
                      "current_edges[-3] = prev_prop_edge",
                      "for i, _ in enumerate(pt_mpos): current_edges[i] = bond_edges[i]",
                      "return (current_node, current_edges)"]:
        raise Untranslatable("_apply_derivative_pt_mpos: tail %r" % texts[10:])
    out.append("/-- %s:%d  _apply_derivative_pt_mpos, first environment: `bondIn` is joined to the\n"
               "    forward tensor's first bond leg; `sysIn` (the leg towards the first half-step\n"
               "    propagator) is left OPEN, as is the forward tensor's own system leg -/\n"
               "def derivFirstAxes : MpoAxes := %s\n"
               % (rel, fn.lineno, _gw_axes_lean((first_in, first["new_bond_edge"],
                                                 first["pre_mpo_edge"], first["post_mpo_edge"]))))
    out.append("/-- _apply_derivative_pt_mpos, remaining environments (list order): `bondIn` is joined to\n"
               "    the first remaining axis of the running node (the next environment's bond leg),\n"
               "    `sysIn` to its last axis (the open `sysOut` of the previous environment) -/\n"
               "def derivRestAxes : MpoAxes := %s\n" % _gw_axes_lean(rest))
    out.append("/-- returned edge list: new bond legs (list order), then from the end: post-MPO leg,\n"
               "    pre-MPO leg, the forward tensor's system leg -/\n"
               "def derivEdgesTail : List String := [\"prev_prop_edge\", \"pre_mpo_edge\", \"post_mpo_edge\"]\n")


_GW_SYSOP = "current_node, current_edges = _apply_system_superoperator(current_node, current_edges, %s)"


def _gw_controls_closure(fn, qual):
    inner = [s for s in fn.body if isinstance(s, ast.FunctionDef) and s.name == "controls"]
    if len(inner) != 1 or [_gw_norm(s) for s in _cc_strip(inner[0].body)] != \
            ["return control.get_controls(step, dt=dt, start_time=start_time)"] \
            or [a.arg for a in inner[0].args.args] != ["step"]:
        raise Untranslatable("%s: the `controls` closure" % qual)


def _gw_adjoint_block(texts, where, fwd_index, mpo_index_after_copy):
    """statements building one adjoint tensor; returns (ops, rest)"""
    ops = []
    i = 0

    def take(prefix_or_text, exact=True):
        nonlocal i
        if i >= len(texts):
            raise Untranslatable("%s: statements end early (expected %s)" % (where, prefix_or_text))
        t = texts[i]
        ok = (t == prefix_or_text) if exact else t.startswith(prefix_or_text)
        if not ok:
            raise Untranslatable("%s: found %r, expected %r" % (where, t, prefix_or_text))
        i += 1
        return t

    def offset(t, prefix, var):
        inner = t[len(prefix):-1].replace(" ", "")
        if inner == var:
            return 0
        if inner.startswith(var + "-") and inner[len(var) + 1:].isdigit():
            return -int(inner[len(var) + 1:])
        if inner.startswith(var + "+") and inner[len(var) + 1:].isdigit():
            return int(inner[len(var) + 1:])
        raise Untranslatable("%s: index %r is not %s +/- constant" % (where, inner, var))

    var = fwd_index
    t = take("forwardprop_tensor = forwardprop_derivs_list[", exact=False)
    ops.append(".useForward (%d)" % offset(t, "forwardprop_tensor = forwardprop_derivs_list[", var))
    # the copy of the backward node and the selection of the MPOs come in either order
    for _ in range(2):
        if i < len(texts) and texts[i] == "backprop_tensor = tn.replicate_nodes([current_node])[0]":
            i += 1
            ops.append(".copyBack")
        elif i < len(texts) and texts[i].startswith("pt_mpos = mpo_list["):
            ops.append(".useMpos (%d)" % offset(texts[i], "pt_mpos = mpo_list[", var))
            i += 1
        else:
            raise Untranslatable("%s: expected the backward copy / MPO selection, found %r"
                                 % (where, texts[i] if i < len(texts) else None))
    take("fwd_edges = forwardprop_tensor[:]")
    take("deriv_forwardprop_tensor, fwd_edges = _apply_derivative_pt_mpos(forwardprop_tensor, "
         "fwd_edges, pt_mpos)")
    ops.append(".applyDerivMpos")
    take("for i, _ in enumerate(pt_mpos): fwd_edges[i] ^ backprop_tensor[i]")
    ops.append(".joinBonds")
    take("deriv = deriv_forwardprop_tensor @ backprop_tensor")
    ops.append(".contractForwardBack")
    t = texts[i] if i < len(texts) else ""
    if t not in ("combined_deriv_list.append(tn.replicate_nodes([deriv])[0])",
                 "combined_deriv_list.append(deriv.get_tensor())",
                 "combined_deriv_list.append(deriv.tensor)"):
        raise Untranslatable("%s: expected the adjoint tensor to be appended, found %r" % (where, t))
    i += 1
    ops.append(".appendDeriv")
    return ops, texts[i:]


def _gw_gradient_loops(src, out):
    rel = "oqupy/gradient.py"
    qual = "compute_gradient_and_dynamics"
    fn = src.function(rel, qual)
    _gw_controls_closure(fn, qual)
    top = _cc_strip(fn.body)
    loops = [(k, s) for k, s in enumerate(top) if isinstance(s, ast.For)
             and _gw_norm(s.target) in ("step", "(loop, step)")]
    if len(loops) != 2:
        raise Untranslatable("%s: expected a forward and a backward loop, found %d loops"
                             % (qual, len(loops)))
    (k1, fwd), (k2, bwd) = loops
    # ---- forward loop
    if _gw_norm(fwd.target) != "step" or _gw_norm(fwd.iter) != "range(num_steps + 1)" or fwd.orelse:
        raise Untranslatable("%s: forward loop header" % qual)
    simple = {
        "pre_measurement_control, post_measurement_control = controls(step)": "getControls",
        "if pre_measurement_control is not None: " + _GW_SYSOP % "pre_measurement_control": "applyPre",
        "if step == num_steps: break": "breakIfLast",
        "if record_all: caps = _get_caps(process_tensors, step) "
        "state_tensor = _apply_caps(current_node, current_edges, caps) "
        "state = state_tensor.reshape(hs_dim, hs_dim) states.append(state)": "record",
        "prog_bar.update(step)": "progress",
        "if post_measurement_control is not None: " + _GW_SYSOP % "post_measurement_control": "applyPost",
        "forwardprop_derivs_list.append(tn.replicate_nodes([current_node])[0])": "storeForward",
        "first_half_prop, second_half_prop = propagators(step)": "getPropagators",
        "pt_mpos = _get_pt_mpos(process_tensors, step)": "getMpos",
        "mpo_list.append(pt_mpos)": "storeMpos",
        _GW_SYSOP % "first_half_prop": "applyP1",
        "current_node, current_edges = _apply_pt_mpos(current_node, current_edges, pt_mpos)": "applyMpo",
        _GW_SYSOP % "second_half_prop": "applyP2",
    }
    tags = []
    for s in _cc_strip(fwd.body):
        t = _gw_norm(s)
        if t not in simple:
            raise Untranslatable("%s forward loop: unexpected statement: %s" % (qual, t[:140]))
        tags.append(simple[t])
    out.append("/-- %s:%d  %s, forward loop `for step in range(num_steps + 1)` (statement order);\n"
               "    `_apply_pt_mpos` is called without `reverse`: environments in list order -/\n"
               "def fwdLoop : List GOp := [%s]\n"
               % (rel, fwd.lineno, qual, ", ".join("." + t for t in tags)))
    # initial tensor of the forward pass
    pre = [_gw_norm(s) for s in top[:k1]]
    want_init = ["initial_ndarray = initial_state.reshape(hs_dim ** 2)",
                 "initial_ndarray.shape = tuple([1] * num_envs + [hs_dim ** 2])",
                 "current_node = tn.Node(initial_ndarray)", "current_edges = current_node[:]"]
    if [t for t in pre if t in want_init] != want_init:
        raise Untranslatable("%s: initial tensor of the forward pass" % qual)
    if "propagators = system.get_propagators(dt, parameters)" not in pre:
        raise Untranslatable("%s: propagators are not system.get_propagators(dt, parameters)" % qual)
    # ---- between the loops
    mid = [_gw_norm(s) for s in top[k1 + 1:k2] if not _gw_norm(s).startswith("prog_bar")
           and not _gw_norm(s).startswith("title = ")]
    want = ["caps = _get_caps(process_tensors, num_steps)",
            "state_tensor = _apply_caps(current_node, current_edges, caps)",
            "final_state = state_tensor.reshape(hs_dim, hs_dim)",
            "states.append(final_state)"]
    if mid[:4] != want:
        raise Untranslatable("%s: read-out of the final state: %r" % (qual, mid[:4]))
    mid = mid[4:]
    if not mid or not mid[0].startswith("if record_all: times ="):
        raise Untranslatable("%s: time labels" % qual)
    if mid[1] != "dynamics = Dynamics(times=list(times), states=states)":
        raise Untranslatable("%s: Dynamics object" % qual)
    mid = mid[2:]
    want = ["if callable(target_derivative): target_derivative = target_derivative(states[-1])",
            "target_ndarray = target_derivative",
            "target_ndarray = target_ndarray.reshape(hs_dim ** 2)",
            "target_ndarray.shape = tuple([1] * num_envs + [hs_dim ** 2])",
            "current_node = tn.Node(target_ndarray)",
            "current_edges = current_node[:]",
            "combined_deriv_list = []",
            "pre_measurement_control, post_measurement_control = controls(num_steps)",
            "if pre_measurement_control is not None: " + _GW_SYSOP % "pre_measurement_control.T"]
    if mid[:len(want)] != want:
        raise Untranslatable("%s: initial tensor of the backward pass: %r" % (qual, mid[:len(want)]))
    ops, rest = _gw_adjoint_block(mid[len(want):], qual + " (last step)", "num_steps", None)
    if rest:
        raise Untranslatable("%s: unexpected statements before the backward loop: %r" % (qual, rest))
    out.append("/-- %s, between the loops: the final state is read out with the caps of `num_steps`;\n"
               "    the backward tensor starts as the target derivative (bond legs of dimension 1) with\n"
               "    the transposed pre-measurement control of `num_steps`; then the adjoint tensor of the\n"
               "    LAST step is built (offsets relative to `num_steps`) -/\n"
               "def firstAdjoint : List GOp := [.recordFinal, .applyPreT, %s]\n" % (qual, ", ".join(ops)))
    # ---- backward loop
    if _gw_norm(bwd.target) != "(loop, step)" or \
            _gw_norm(bwd.iter) != "enumerate(reversed(range(1, num_steps)))" or bwd.orelse:
        raise Untranslatable("%s: backward loop header %s" % (qual, _gw_norm(bwd.iter)))
    btexts = [_gw_norm(s) for s in _cc_strip(bwd.body)]
    bsimple = {
        "prog_bar.update(loop)": "progress",
        "pre_measurement_control, post_measurement_control = controls(step)": "getControls",
        "first_half_prop, second_half_prop = propagators(step)": "getPropagators",
        "pt_mpos = _get_pt_mpos_backprop(mpo_list, step)": "getMposBackprop",
        _GW_SYSOP % "second_half_prop.T": "applyP2T",
        _GW_SYSOP % "first_half_prop.T": "applyP1T",
        "if post_measurement_control is not None: " + _GW_SYSOP % "post_measurement_control.T": "applyPostT",
        "if pre_measurement_control is not None: " + _GW_SYSOP % "pre_measurement_control.T": "applyPreT",
    }
    mpo_calls = {
        "current_node, current_edges = _apply_pt_mpos(current_node, current_edges, pt_mpos)": False,
        "current_node, current_edges = _apply_pt_mpos(current_node, current_edges, pt_mpos, reverse=True)": True,
        "current_node, current_edges = _apply_pt_mpos(current_node, current_edges, pt_mpos, True)": True,
    }
    tags, reversed_call, k = [], None, 0
    while k < len(btexts) and not btexts[k].startswith("forwardprop_tensor = "):
        t = btexts[k]
        if t in bsimple:
            tags.append("." + bsimple[t])
        elif t in mpo_calls:
            if reversed_call is not None:
                raise Untranslatable("%s backward loop: two MPO applications" % qual)
            reversed_call = mpo_calls[t]
            tags.append(".applyMpoBack")
        else:
            raise Untranslatable("%s backward loop: unexpected statement: %s" % (qual, t[:140]))
        k += 1
    if reversed_call is None:
        raise Untranslatable("%s backward loop: no MPO application" % qual)
    ops, rest = _gw_adjoint_block(btexts[k:], qual + " (backward loop)", "step", None)
    if rest:
        raise Untranslatable("%s backward loop: trailing statements %r" % (qual, rest))
    out.append("/-- %s:%d  %s, backward loop `for loop, step in enumerate(reversed(range(1, num_steps)))`\n"
               "    (statement order; offsets relative to `step`) -/\n"
               "def bwdLoop : List GOp := [%s]\n"
               % (rel, bwd.lineno, qual, ", ".join(tags + ops)))
    out.append("/-- the backward loop's `_apply_pt_mpos` call passes `reverse=True`: the (leg-swapped) MPO\n"
               "    tensors of the environments are applied in REVERSED list order -/\n"
               "def bwdCallReversed : Bool := %s\n" % ("true" if reversed_call else "false"))
    tail = [_gw_norm(s) for s in top[k2 + 1:] if not _gw_norm(s).startswith("prog_bar")]
    if tail != ["propagator_derivatives = list(reversed(combined_deriv_list))",
                "return (propagator_derivatives, dynamics)"]:
        raise Untranslatable("%s: tail %r" % (qual, tail))
    out.append("/-- the adjoint tensors are returned in reversed order of construction (entry `k` belongs to\n"
               "    step `k`), together with the Dynamics object of the forward pass -/\n"
               "def adjointListReversed : Bool := true\n")
    return reversed_call


def _gw_chain_rule(src, out):
    rel = "oqupy/gradient.py"
    fn = src.function(rel, "_chain_rule")
    inner = [s for s in fn.body if isinstance(s, ast.FunctionDef) and s.name == "combine_derivs"]
    if len(inner) != 1 or [a.arg for a in inner[0].args.args] != ["target_deriv", "pre_prop", "post_prop"]:
        raise Untranslatable("_chain_rule: combine_derivs(target_deriv, pre_prop, post_prop)")
    texts = [_gw_norm(s) for s in _cc_strip(inner[0].body)]
    if len(texts) != 10 or texts[:3] != ["target_deriv = tn.Node(target_deriv)", "pre_node = tn.Node(pre_prop)",
                                          "post_node = tn.Node(post_prop)"] \
            or texts[7:] != ["final_node = target_deriv @ pre_node @ post_node",
                             "tensor = final_node.tensor", "return tensor"]:
        raise Untranslatable("_chain_rule.combine_derivs: unexpected shape %r" % texts)
    conn = {}
    for t in texts[3:7]:
        l, _, r = t.partition(" ^ ")
        ax = _gw_int_sub(l, "target_deriv")
        if r.startswith("pre_node["):
            conn[ax] = ("pre", _gw_int_sub(r, "pre_node"))
        elif r.startswith("post_node["):
            conn[ax] = ("post", _gw_int_sub(r, "post_node"))
        else:
            raise Untranslatable("_chain_rule.combine_derivs: connection " + t)
    if sorted(conn) != [0, 1, 2, 3] or sorted(conn.values()) != [("post", 0), ("post", 1), ("pre", 0), ("pre", 1)]:
        raise Untranslatable("_chain_rule.combine_derivs: the connections are not a perfect matching")
    inv = {v: k for k, v in conn.items()}
    out.append("/-- %s:%d  _chain_rule.combine_derivs(D, pre, post) = Σ D[a0,a1,a2,a3] · pre[..] · post[..]:\n"
               "    the axis of `D` joined to index 0 / index 1 of `pre`, then of `post` -/\n"
               "def chainPreAxes : Nat × Nat := (%d, %d)\ndef chainPostAxes : Nat × Nat := (%d, %d)\n"
               % (rel, inner[0].lineno, inv[("pre", 0)], inv[("pre", 1)], inv[("post", 0)], inv[("post", 1)]))
    # the loop filling total_derivs
    loops = [s for s in fn.body if isinstance(s, ast.For)]
    if len(loops) != 1 or _gw_norm(loops[0].target) != "i" or _gw_norm(loops[0].iter) != "range(0, num_steps)":
        raise Untranslatable("_chain_rule: loop over the steps")
    lb = _cc_strip(loops[0].body)
    ltexts = [_gw_norm(s) for s in lb]
    if ltexts[:3] != ["first_half_prop, second_half_prop = propagators(i)",
                      "first_half_prop_derivs, second_half_prop_derivs = dprop_dparam(i)",
                      "prog_bar.update(i)"] or len(lb) != 4 or not isinstance(lb[3], ast.For) \
            or _gw_norm(lb[3].target) != "j" or _gw_norm(lb[3].iter) != "range(0, num_parameters)":
        raise Untranslatable("_chain_rule: loop body %r" % ltexts[:3])
    names = {"first_half_prop": "firstProp", "second_half_prop": "secondProp",
             "first_half_prop_derivs[j]": "firstDeriv", "second_half_prop_derivs[j]": "secondDeriv"}
    rows = {}
    for s in lb[3].body:
        if not (isinstance(s, ast.Assign) and isinstance(s.value, ast.Call)
                and _gw_norm(s.value.func) == "combine_derivs" and len(s.value.args) == 3
                and not s.value.keywords):
            raise Untranslatable("_chain_rule: unexpected statement " + _gw_norm(s)[:100])
        tgt = _gw_norm(s.targets[0])
        if tgt == "total_derivs[2 * i][j]":
            row = 0
        elif tgt == "total_derivs[2 * i + 1][j]":
            row = 1
        else:
            raise Untranslatable("_chain_rule: target " + tgt)
        if _gw_norm(s.value.args[0]) != "adjoint_tensor[i]":
            raise Untranslatable("_chain_rule: the adjoint tensor of step i is not used for row %d" % row)
        slots = []
        for a in s.value.args[1:]:
            t = _gw_norm(a)
            tr = t.endswith(".T")
            base = t[:-2] if tr else t
            if base not in names:
                raise Untranslatable("_chain_rule: argument " + t)
            slots.append("(.%s, %s)" % (names[base], "true" if tr else "false"))
        rows[row] = slots
    if sorted(rows) != [0, 1]:
        raise Untranslatable("_chain_rule: rows 2i and 2i+1 are not both filled")
    for row, nm in ((0, "chainRowEven"), (1, "chainRowOdd")):
        out.append("/-- _chain_rule: total_derivs[2*i%s][j] = combine_derivs(adjoint_tensor[i], pre, post) with\n"
                   "    (array, transposed?) for `pre` and `post` -/\n"
                   "def %s : (PropArg × Bool) × (PropArg × Bool) := (%s, %s)\n"
                   % ("" if row == 0 else "+1", nm, rows[row][0], rows[row][1]))
    # state_gradient
    fn = src.function(rel, "state_gradient")
    text = _gw_norm(fn)
    need = ["grad_prop, dynamics = compute_gradient_and_dynamics(system=system, initial_state=initial_state, "
            "target_derivative=target_derivative, process_tensors=process_tensors, parameters=parameters, "
            "start_time=start_time, dt=dt, num_steps=num_steps, progress_type=progress_type)",
            "num_steps = len(process_tensors[0])",
            "dt = process_tensors[0].dt",
            "get_half_props = system.get_propagators(dt, parameters)",
            "get_prop_derivatives = system.get_propagator_derivatives(dt, parameters)",
            "final_derivs = _chain_rule(adjoint_tensor=grad_prop, dprop_dparam=get_prop_derivatives, "
            "propagators=get_half_props, num_steps=num_steps, num_parameters=num_parameters, "
            "progress_type=progress_type)",
            "return_dict = {'final_state': dynamics.states[-1], 'gradprop': grad_prop, "
            "'gradient': final_derivs, 'dynamics': dynamics}",
            "return return_dict"]
    for n in need:
        if n not in text:
            raise Untranslatable("state_gradient: missing `%s`" % n[:80])
    out.append("/-- %s:%d  state_gradient: no control is passed; the same `parameters` give the propagators of\n"
               "    the forward/backward pass and of the chain rule; 'gradient' = _chain_rule(adjoint tensors),\n"
               "    'dynamics' = the forward pass, 'final_state' = its last state -/\n"
               "def stateGradientShapeChecked : Bool := true\n" % (rel, fn.lineno))
    # ParameterizedSystem.get_propagators / get_propagator_derivatives: half-step indices
    rel2 = "oqupy/system.py"
    fn = src.function(rel2, "ParameterizedSystem.get_propagators")
    text = _gw_norm(fn)
    for n in ["pre_liou = self.liouvillian(*list(parameters[2 * step][:]))",
              "post_liou = self.liouvillian(*list(parameters[2 * step + 1][:]))",
              "first_step = expm(pre_liou * dt / 2.0)", "second_step = expm(post_liou * dt / 2.0)",
              "return (first_step, second_step)"]:
        if n not in text:
            raise Untranslatable("ParameterizedSystem.get_propagators: missing `%s`" % n)
    fn = src.function(rel2, "ParameterizedSystem.get_propagator_derivatives")
    text = _gw_norm(fn)
    # (the derivative closures are analysed statement by statement in _gw_deriv_sources)
    out.append("/-- %s:%d  ParameterizedSystem: propagators(step) = (expm(L(parameters[2*step])·dt/2),\n"
               "    expm(L(parameters[2*step+1])·dt/2)); the derivatives use the same two rows -/\n"
               "def halfStepRows : Nat × Nat := (0, 1)\n" % (rel2, fn.lineno))


# ---- GradWiring, part 2: memoisation inside ParameterizedSystem's propagator factories ----
#
# For `get_propagators`, `halfstep_propagator_derivative`, `get_propagator_derivatives` the
# results are closures; what a closure returns can depend on its own parameters and on the
# parameters of every enclosing function (besides `self`).  A *memo site* is any use of a
# container as a cache inside these methods:
#     self.<c>[k]   |   k in / not in self.<c>   |   self.<c>.get(k, ..) / .setdefault(k, ..)
#     the same with a local name <c> that was bound to `{}` / `dict()` in an enclosing function
#     a nested function decorated with lru_cache / cache  (key = its parameters)
# For each site the translator records the variables the key is built from (local names are
# resolved through their single assignment) and the variables the cached value can depend on:
# the parameters (referenced anywhere in the method) of the functions between the place where
# the container lives (the object for `self.<c>`: every function of the method) and the site.
# Anything cache-like it cannot resolve is Untranslatable.

GW_MEMO_PREAMBLE = '''/-- a cache inside one of ParameterizedSystem's propagator factories -/
structure MemoSite where
  method : String
  container : String
  line : Nat
  /-- variables the key is built from -/
  keyVars : List String
  /-- variables the cached value can depend on -/
  dependsOn : List String
  deriving DecidableEq, Repr
'''

_GW_MEMO_METHODS = ["get_propagators", "halfstep_propagator_derivative", "get_propagator_derivatives"]
_GW_BUILTINS = {"tuple", "list", "float", "int", "str", "repr", "hash", "round", "np", "len",
                "frozenset", "complex", "id", "sorted", "map", "zip", "range", "enumerate", "abs"}


def _gw_func_params(fn):
    a = fn.args
    names = [x.arg for x in a.posonlyargs + a.args + a.kwonlyargs]
    if a.vararg:
        names.append(a.vararg.arg)
    if a.kwarg:
        names.append(a.kwarg.arg)
    return [n for n in names if n != "self"]


def _gw_own_nodes(fn):
    """nodes of fn's body that are not inside a nested def / lambda"""
    out = []

    def walk(n):
        for ch in ast.iter_child_nodes(n):
            if isinstance(ch, (ast.FunctionDef, ast.AsyncFunctionDef)):
                out.append(ch)          # the def itself (decorators matter), not its body
                continue
            out.append(ch)
            walk(ch)                    # lambdas are treated as part of the enclosing function
    for s in fn.body:
        out.append(s)
        if not isinstance(s, (ast.FunctionDef, ast.AsyncFunctionDef)):
            walk(s)
    return out


def _gw_key_roots(expr, fn, depth=0):
    """variables a key expression is built from, local names resolved through their assignment"""
    if depth > 6:
        raise Untranslatable("memo key: assignment chain too deep")
    roots = []
    for n in ast.walk(expr):
        if isinstance(n, ast.Name) and isinstance(n.ctx, ast.Load) and n.id not in _GW_BUILTINS:
            assigns = [a for a in _gw_own_nodes(fn) if isinstance(a, ast.Assign)
                       and len(a.targets) == 1 and isinstance(a.targets[0], ast.Name)
                       and a.targets[0].id == n.id]
            if n.id in _gw_func_params(fn) or not assigns:
                roots.append(n.id)
            elif len(assigns) == 1:
                roots += _gw_key_roots(assigns[0].value, fn, depth + 1)
            else:
                raise Untranslatable("memo key: `%s` is assigned more than once" % n.id)
        elif isinstance(n, ast.Attribute) and isinstance(n.value, ast.Name) and n.value.id == "self":
            roots.append("self." + n.attr)
    out = []
    for r in roots:
        if r not in out and r != "self":
            out.append(r)
    return out


def _gw_is_empty_dict(e):
    return (isinstance(e, ast.Dict) and not e.keys) or \
        (isinstance(e, ast.Call) and attr_chain(e.func) in (["dict"], ["OrderedDict"],
                                                            ["collections", "OrderedDict"]) and not e.args)


def _gw_memo_sites(src, out):
    rel = "oqupy/system.py"
    sites = []
    cls = src.function(rel, "ParameterizedSystem")
    # attributes of self that are bound to an empty dict anywhere in the class
    dict_attrs = set()
    for n in ast.walk(cls):
        if isinstance(n, ast.Assign) and _gw_is_empty_dict(n.value):
            for t in n.targets:
                if isinstance(t, ast.Attribute) and isinstance(t.value, ast.Name) and t.value.id == "self":
                    dict_attrs.add(t.attr)
    for meth in _GW_MEMO_METHODS:
        top = src.function(rel, "ParameterizedSystem." + meth)
        used = {n.id for n in ast.walk(top) if isinstance(n, ast.Name) and isinstance(n.ctx, ast.Load)}

        def visit(fn, stack, local_dicts):
            stack = stack + [fn]
            local_dicts = dict(local_dicts)
            own = _gw_own_nodes(fn)
            for n in own:
                if isinstance(n, ast.Assign) and _gw_is_empty_dict(n.value):
                    for t in n.targets:
                        if isinstance(t, ast.Name):
                            local_dicts[t.id] = len(stack) - 1

            def container(e):
                """(name, level) if e denotes a cache container; level = index of the function
                that owns it (-1: the object)"""
                if isinstance(e, ast.Attribute) and isinstance(e.value, ast.Name) and e.value.id == "self" \
                        and (e.attr in dict_attrs or "cache" in e.attr.lower() or "memo" in e.attr.lower()):
                    return "self." + e.attr, -1
                if isinstance(e, ast.Name) and e.id in local_dicts:
                    return e.id, local_dicts[e.id]
                return None

            found = {}
            for n in own:
                hit = None
                if isinstance(n, ast.Subscript) and container(n.value):
                    hit = (container(n.value), n.slice)
                elif isinstance(n, ast.Compare) and len(n.ops) == 1 \
                        and isinstance(n.ops[0], (ast.In, ast.NotIn)) and container(n.comparators[0]):
                    hit = (container(n.comparators[0]), n.left)
                elif isinstance(n, ast.Call) and isinstance(n.func, ast.Attribute) \
                        and n.func.attr in ("get", "setdefault", "pop") and container(n.func.value) and n.args:
                    hit = (container(n.func.value), n.args[0])
                if hit:
                    (cname, level), keyexpr = hit
                    roots = _gw_key_roots(keyexpr, fn)
                    deps = []
                    for f in stack[level + 1:]:
                        for p in _gw_func_params(f):
                            if p in used and p not in deps:
                                deps.append(p)
                    k = (cname, tuple(roots))
                    if k not in found:
                        found[k] = (cname, n.lineno, roots, deps)
                if isinstance(n, (ast.FunctionDef, ast.AsyncFunctionDef)):
                    for d in n.decorator_list:
                        txt = ast.unparse(d)
                        if "cache" in txt or "memo" in txt:
                            # key = the decorated function's parameters; the cache lives where
                            # the def is executed, i.e. in `fn`
                            deps = list(_gw_func_params(n))
                            found[("@" + txt, n.name)] = ("@%s %s" % (txt, n.name), n.lineno,
                                                          list(_gw_func_params(n)), deps)
                    visit(n, stack, local_dicts)
            for v in found.values():
                sites.append((meth,) + v)

        for d in top.decorator_list:
            txt = ast.unparse(d)
            if "cache" in txt or "memo" in txt:
                ps = _gw_func_params(top)
                sites.append((meth, "@" + txt, top.lineno, ps + ["self"], ps + ["self"]))
        visit(top, [], {})
    lines = []
    for (meth, cname, line, roots, deps) in sites:
        lines.append("  { method := %s, container := %s, line := %d,\n    keyVars := [%s], dependsOn := [%s] }"
                     % (_lstr(meth), _lstr(cname), line, ", ".join(_lstr(r) for r in roots),
                        ", ".join(_lstr(d) for d in deps)))
    out.append(GW_MEMO_PREAMBLE)
    out.append("/-- %s  ParameterizedSystem.{%s}: every cache used while building the half-step\n"
               "    propagators and their derivatives (none: the list is empty) -/\n"
               "def memoSites : List MemoSite := [%s]\n"
               % (rel, ", ".join(_GW_MEMO_METHODS), ("\n" + ",\n".join(lines)) if lines else ""))


GW_DERIVSRC_PREAMBLE = '''/-- one assignment of the propagator derivatives of a half step inside a closure returned by
    `ParameterizedSystem.get_propagator_derivatives`: `half` 0/1 = first/second half step,
    `fromRow` 0/1 = computed from `parameters[2*step]` / `parameters[2*step+1]` (a copy of the
    other half's derivatives counts as computed from the other half's row), `guard` = the
    condition under which the assignment runs: "always", "allEqual" (all parameters of the two
    halves agree), "notAllEqual" (the else-branch of such a test) or "other: <test>" -/
structure DerivSrc where
  closure : String
  half : Nat
  fromRow : Nat
  guard : String
  deriving DecidableEq, Repr
'''

_GW_ALLEQ = {"np.all(np.equal(%s, %s))", "np.array_equal(%s, %s)", "np.all(%s == %s)",
             "np.equal(%s, %s).all()", "(%s == %s).all()"}


def _gw_guard_kind(test):
    t = _gw_norm(test)
    for pat in _GW_ALLEQ:
        if t in (pat % ("pre_params", "post_params"), pat % ("post_params", "pre_params")):
            return "allEqual"
    return "other: " + t


def _gw_deriv_sources(src, out):
    rel = "oqupy/system.py"
    fn = src.function(rel, "ParameterizedSystem.get_propagator_derivatives")
    closures = [n for n in ast.walk(fn) if isinstance(n, ast.FunctionDef) and n is not fn]
    if sorted(c.name for c in closures) != ["propagator_derivatives_a", "propagator_derivatives_b"]:
        raise Untranslatable("get_propagator_derivatives: closures %r" % [c.name for c in closures])
    # which callable differentiates: user-supplied in closure a, pd = halfstep_propagator_derivative(dt) in b
    text = _gw_norm(fn)
    if "pd = self.halfstep_propagator_derivative(dt)" not in text or \
            "if self._propagator_derivatives is not None:" not in text:
        raise Untranslatable("get_propagator_derivatives: branch on the user-supplied derivatives")
    rows = []
    for c in sorted(closures, key=lambda c: c.name):
        if [a.arg for a in c.args.args] != ["step"]:
            raise Untranslatable("%s: parameters" % c.name)
        rowof = {}
        seen_return = []

        def walk(stmts, guard):
            for s in stmts:
                if isinstance(s, ast.Expr) and isinstance(s.value, ast.Constant):
                    continue
                if isinstance(s, ast.Return):
                    if _gw_norm(s.value) not in ("(pre_prop_derivs, post_prop_derivs)",):
                        raise Untranslatable("%s: returns %s" % (c.name, _gw_norm(s.value)))
                    if guard != "always":
                        raise Untranslatable("%s: conditional return" % c.name)
                    seen_return.append(1)
                    continue
                if isinstance(s, ast.If):
                    kind = _gw_guard_kind(s.test)
                    inner = kind if guard == "always" else "other: nested (%s) and (%s)" % (guard, kind)
                    walk(s.body, inner)
                    if kind == "allEqual" and guard == "always":
                        walk(s.orelse, "notAllEqual")
                    else:
                        walk(s.orelse, "other: else of (%s)" % inner)
                    continue
                if not (isinstance(s, ast.Assign) and len(s.targets) == 1
                        and isinstance(s.targets[0], ast.Name)):
                    raise Untranslatable("%s: unexpected statement %s" % (c.name, _gw_norm(s)[:80]))
                tgt, val = s.targets[0].id, _gw_norm(s.value)
                if tgt in ("pre_params", "post_params"):
                    want = {"pre_params": "parameters[2 * step]", "post_params": "parameters[2 * step + 1]"}[tgt]
                    if val != want or guard != "always":
                        raise Untranslatable("%s: %s = %s" % (c.name, tgt, val))
                    rowof[tgt] = 0 if tgt == "pre_params" else 1
                    continue
                if tgt in ("pre_prop_derivs", "post_prop_derivs"):
                    half = 0 if tgt.startswith("pre") else 1
                    fn_name = "self._propagator_derivatives(dt, %s)" if c.name.endswith("_a") else "pd(%s)"
                    if val == fn_name % "pre_params" and "pre_params" in rowof:
                        frm = 0
                    elif val == fn_name % "post_params" and "post_params" in rowof:
                        frm = 1
                    elif val == "pre_prop_derivs":
                        frm = 0
                    elif val == "post_prop_derivs":
                        frm = 1
                    else:
                        raise Untranslatable("%s: %s = %s" % (c.name, tgt, val))
                    rows.append((c.name, half, frm, guard))
                    continue
                raise Untranslatable("%s: assignment to %s" % (c.name, tgt))

        walk(c.body, "always")
        if len(seen_return) != 1:
            raise Untranslatable("%s: not exactly one return" % c.name)
        for half in (0, 1):
            if not any(r[0] == c.name and r[1] == half for r in rows):
                raise Untranslatable("%s: derivatives of half step %d are never assigned" % (c.name, half))
    out.append(GW_DERIVSRC_PREAMBLE)
    out.append("/-- %s:%d  ParameterizedSystem.get_propagator_derivatives: where the derivatives of each half\n"
               "    step come from, in the user-supplied (`_a`) and the numerically differentiated (`_b`) closure -/\n"
               "def derivSources : List DerivSrc := [\n%s]\n"
               % (rel, fn.lineno, ",\n".join(
                   "  { closure := %s, half := %d, fromRow := %d, guard := %s }"
                   % (_lstr(a), b, c_, _lstr(g)) for (a, b, c_, g) in rows)))


def _gw_halfstep_derivative(src, out):
    """ParameterizedSystem.halfstep_propagator_derivative: exactly
         def prop(parameterlist): return expm(self.liouvillian(*parameterlist) * dt / 2.0)
         jacfunre = Jacobian(lambda x: prop(x).real)
         jacfunim = Jacobian(lambda x: prop(x).imag)
         def jacfun(x):
             jac = jacfunre(x) + 1j * jacfunim(x)
             return [jac[:, i, :] for i in range(self._number_of_parameters)]
         return jacfun
       with `Jacobian` imported from numdifftools (which differentiates in float64 whatever the
       dtype of the point it is given).  Any other body is refused."""
    rel = "oqupy/system.py"
    tree = src.tree(rel)
    imports = [_gw_norm(n) for n in tree.body if isinstance(n, (ast.Import, ast.ImportFrom))]
    if "from numdifftools import Jacobian" not in imports:
        raise Untranslatable("oqupy/system.py: `Jacobian` is not imported from numdifftools")
    fn = src.function(rel, "ParameterizedSystem.halfstep_propagator_derivative")
    if [a.arg for a in fn.args.args] != ["self", "dt"]:
        raise Untranslatable("halfstep_propagator_derivative: parameters")
    body = _gw_body(fn)
    texts = [_gw_norm(s) for s in body]
    want = ["def prop(parameterlist): return expm(self.liouvillian(*parameterlist) * dt / 2.0)",
            "jacfunre = Jacobian(lambda x: prop(x).real)",
            "jacfunim = Jacobian(lambda x: prop(x).imag)",
            "def jacfun(x): jac = jacfunre(x) + 1j * jacfunim(x) "
            "return [jac[:, i, :] for i in range(self._number_of_parameters)]",
            "return jacfun"]
    if texts != want:
        for k, (a, b) in enumerate(zip(texts + [""] * 5, want)):
            if a != b:
                raise Untranslatable("halfstep_propagator_derivative: statement %d is `%s`, expected `%s`"
                                     % (k, a[:160], b))
        raise Untranslatable("halfstep_propagator_derivative: %d statements, expected %d"
                             % (len(texts), len(want)))
    out.append("/-- %s:%d  ParameterizedSystem.halfstep_propagator_derivative(dt): the derivative of\n"
               "    expm(L(x)·dt/2) w.r.t. each parameter is  Jacobian(Re) + i·Jacobian(Im), both numdifftools\n"
               "    Jacobians evaluated UNCONDITIONALLY at the parameter row (numdifftools works in float64\n"
               "    whatever the dtype of the row); entry i of the result = slice [:, i, :] -/\n"
               "def halfstepRealJacobianUnconditional : Bool := true\n"
               "def halfstepImagJacobianUnconditional : Bool := true\n"
               "def halfstepDifferentiator : String := \"numdifftools.Jacobian\"\n" % (rel, fn.lineno))


@fragment("GradWiring")
def frag_gradwiring(src):
    out = [GW_PREAMBLE]
    _gw_sysop(src, out)
    has_reverse = _gw_apply_pt_mpos(src, out)
    _gw_backprop_mpos(src, out)
    _gw_derivative_mpos(src, out)
    reversed_call = _gw_gradient_loops(src, out)
    if reversed_call and not has_reverse:
        raise Untranslatable("compute_gradient_and_dynamics passes `reverse` to an _apply_pt_mpos "
                             "that has no such parameter")
    _gw_chain_rule(src, out)
    out.append("/-- order in which the backward pass visits the environments: reversed list order iff the\n"
               "    call passes `reverse=True` -/\n"
               "def bwdEnvReversed : Bool := bwdCallReversed\n")
    out.append("/-- `fwd_edges[i] ^ backprop_tensor[i]` addresses the backward node's axes by POSITION: it\n"
               "    joins the bond legs of the same environment iff the node's axes are in list order, i.e.\n"
               "    the environments were visited in list order or the axes were reordered afterwards -/\n"
               "def bwdJoinAligned : Bool := (!bwdCallReversed) || applyReverseReorders\n")
    _gw_memo_sites(src, out)
    _gw_deriv_sources(src, out)
    _gw_halfstep_derivative(src, out)
    return "\n".join(out)
# end of GradWiring


# ---------------------------------------------------------------------------
# MeanFieldTimes  (C09):  the time / step / state / field arguments handed to the user's
# `field_eom` and to the system propagators in one step of mean-field TEMPO and of
# compute_dynamics_with_field, the Heun update expressions, the statement order of both
# step loops, and the sample times of the (field-dependent and plain) system propagators
# ---------------------------------------------------------------------------

MF_PREAMBLE = '''/-- statements of `MeanFieldTempoBackend.compute_step`, in source order -/
inductive MftOp where
  | readStep | nextStep | copyStates | readField | fieldDerivative | propagators
  | saveNetworks | tryBegin | systemStep | computeField | tryEnd
  | commitStates | commitField | commitStep | returnResult
  deriving DecidableEq, Repr

/-- statements of the step loop of `compute_dynamics_with_field` (and of the block after it) -/
inductive CdwfOp where
  | time | getControls | applyPre | breakIfLast | getCaps | applyCaps | reshapeStates
  | fieldUpdate | aliasStates | aliasTime | record | progress | applyPost
  | fieldDerivative | propagators | getMpos | applyP1 | applyMpo | applyP2
  | appendStates | finalField | appendField | makeTimes | returnResult
  deriving DecidableEq, Repr
'''

_MF_KCLASSES = "{K : Type} [Add K] [Sub K] [Mul K] [Div K]"


def _mf_norm(n):
    return " ".join(ast.unparse(n).split())


def _mf_strip(stmts):
    """drop docstrings"""
    return [s for s in unwrap_progress_with(stmts)
            if not (isinstance(s, ast.Expr) and isinstance(s.value, ast.Constant)
                    and isinstance(s.value.value, str))]


class _MfTr(FnTranslator):
    """FnTranslator + `self._time(x)` -> (mft_time start_time dt x)."""

    def call(self, e):
        ch = attr_chain(e.func)
        if ch == ["self", "_time"] and len(e.args) == 1 and not e.keywords:
            a = self.expr(e.args[0])
            if a[1] != "Int":
                raise Untranslatable("self._time(<non-int>)")
            s, _ = self.var("start_time", "Flt")
            d, _ = self.var("dt", "Flt")
            return "(mft_time %s %s %s)" % (s, d, a[0]), "Flt"
        return super().call(e)


def _mf_flt_def(name, lets, node, params, doc, types=None, ret="Flt", subst=None):
    """Lean def of the float/int expression `node` under the local bindings `lets`
    ([(python name, ast value)], in source order)."""
    ty = {"start_time": "Flt", "dt": "Flt", "t": "Flt", "step": "Int", "num_steps": "Int",
          "current_step": "Int"}
    ty.update(types or {})
    tr = _MfTr(ty)
    prefix = ""
    needed = {n.id for n in ast.walk(node) if isinstance(n, ast.Name)}
    keep = []
    for nm, val in reversed(list(lets)):
        if nm in needed:
            keep.append((nm, val))
            if not isinstance(val, str):
                needed |= {n.id for n in ast.walk(val) if isinstance(n, ast.Name)}
    keep.reverse()
    for nm, val in keep:
        if isinstance(val, str):             # ready-made Lean term (Flt)
            term, t = val, "Flt"
            for v in (subst or {}).get(nm, ()):
                tr.var(v)
        else:
            term, t = tr.expr(val)
        l = lean_ident(nm)
        tr.types[l] = t
        prefix += "let %s : %s := %s\n  " % (l, LTYPE[t], term)
        tr.bound = tuple(tr.bound) + (l,)
    t = tr.expr(node)
    if ret == "Flt":
        term = tr.to_flt(t)
    else:
        if t[1] != ret:
            raise Untranslatable("%s: type %s, expected %s" % (name, t[1], ret))
        term = t[0]
    return emit_def(name, tr, prefix + term, ret, params, doc)


def _mf_kexpr(node, allowed, nums):
    """expression over the complex field type: names in `allowed`, + - * /, int literals"""
    if isinstance(node, ast.Name):
        if node.id not in allowed:
            raise Untranslatable("field expression reads %r (allowed: %s)" % (node.id, allowed))
        return lean_ident(node.id)
    if isinstance(node, ast.Constant) and isinstance(node.value, int) \
            and not isinstance(node.value, bool) and node.value >= 0:
        nums.add(node.value)
        return "(%d : K)" % node.value
    if isinstance(node, ast.BinOp) and isinstance(node.op, (ast.Add, ast.Sub, ast.Mult, ast.Div)):
        sym = {ast.Add: "+", ast.Sub: "-", ast.Mult: "*", ast.Div: "/"}[type(node.op)]
        return "(%s %s %s)" % (_mf_kexpr(node.left, allowed, nums), sym,
                               _mf_kexpr(node.right, allowed, nums))
    raise Untranslatable("field expression " + _mf_norm(node)[:120])


def _mf_kdef(name, node, params, doc):
    nums = set()
    term = _mf_kexpr(node, params, nums)
    cls = _MF_KCLASSES + "".join(" [OfNat K %d]" % n for n in sorted(nums))
    return "/-- %s -/\ndef %s %s %s : K :=\n  %s\n" % (
        doc.replace("-/", "- /"), name, cls,
        " ".join("(%s : K)" % lean_ident(p) for p in params), term)


def _mf_select(name, node, table, params, doc, tyvar="S"):
    """`node` must be a Name; table: python name -> one of `params`"""
    if not isinstance(node, ast.Name) or node.id not in table:
        raise Untranslatable("%s: argument %s is not one of %s"
                             % (name, _mf_norm(node)[:80], sorted(table)))
    return "/-- %s -/\ndef %s {%s : Type} %s : %s :=\n  %s\n" % (
        doc.replace("-/", "- /"), name, tyvar,
        " ".join("(%s : %s)" % (p, tyvar) for p in params), tyvar, table[node.id])


def _mf_is_reshape_rebind(s):
    """X = [state.reshape((hs_dim, hs_dim)) for state, hs_dim in zip(X, ...)]  -> X"""
    if not (isinstance(s, ast.Assign) and len(s.targets) == 1
            and isinstance(s.targets[0], ast.Name) and isinstance(s.value, ast.ListComp)):
        return None
    lc = s.value
    if len(lc.generators) != 1 or lc.generators[0].ifs:
        return None
    g = lc.generators[0]
    if _mf_norm(lc.elt) != "state.reshape((hs_dim, hs_dim))" or _mf_norm(g.target) != "(state, hs_dim)":
        return None
    it = g.iter
    if not (isinstance(it, ast.Call) and _mf_norm(it.func) == "zip" and len(it.args) == 2
            and isinstance(it.args[0], ast.Name) and it.args[0].id == s.targets[0].id):
        return None
    return s.targets[0].id


def _mf_eom_call(node, eom_names):
    """`<...>.field_eom(t, states, field)` -> the three argument nodes"""
    if isinstance(node, ast.Call) and _mf_norm(node.func) in eom_names \
            and len(node.args) == 3 and not node.keywords:
        return node.args
    return None


def _mf_heun_body(stmts, out, pre, rel, qual, eom_names, time_params, lets0=()):
    """The body shared by MeanFieldTempo._compute_field and the `compute_field` closure of
    compute_dynamics_with_field:  float locals, reshape re-bindings,
        rk1 = field_eom(T1, S1, F1);  rk2 = field_eom(T2, S2, F2);  return UPDATE."""
    lets = list(lets0)
    rk = {}
    states = {"state_list": "state_list", "next_state_list": "next_state_list"}
    for s in _mf_strip(stmts):
        where = "%s:%d %s" % (rel, s.lineno, qual)
        nm = _mf_is_reshape_rebind(s)
        if nm is not None:
            if nm not in states:
                raise Untranslatable(where + ": reshape of " + nm)
            continue
        if isinstance(s, ast.Return):
            if sorted(rk) != ["rk1", "rk2"]:
                raise Untranslatable(where + ": return before rk1 and rk2 are computed")
            out.append(_mf_kdef(pre + "_result", s.value, ["field", "dt", "rk1", "rk2"],
                                where + ":  return " + _mf_norm(s.value)))
            return
        if not (isinstance(s, ast.Assign) and len(s.targets) == 1
                and isinstance(s.targets[0], ast.Name)):
            raise Untranslatable(where + ": unexpected statement " + _mf_norm(s)[:100])
        tgt = s.targets[0].id
        args = _mf_eom_call(s.value, eom_names)
        if args is not None:
            if tgt not in ("rk1", "rk2") or tgt in rk or (tgt == "rk2" and "rk1" not in rk):
                raise Untranslatable(where + ": field_eom result stored in " + tgt)
            rk[tgt] = True
            doc = where + ":  " + _mf_norm(s)
            out.append(_mf_flt_def("%s_%s_time" % (pre, tgt), lets, args[0], time_params, doc))
            out.append(_mf_select("%s_%s_states" % (pre, tgt), args[1], states,
                                  ["state_list", "next_state_list"], doc))
            kp = ["field", "dt"] + (["rk1"] if tgt == "rk2" else [])
            out.append(_mf_kdef("%s_%s_field" % (pre, tgt), args[2], kp, doc))
            continue
        if tgt in ("state_list", "next_state_list", "field", "rk1", "rk2"):
            raise Untranslatable(where + ": assignment to " + tgt)
        lets.append((tgt, s.value))
    raise Untranslatable("%s %s: no return" % (rel, qual))


def _mf_mft(src, out):
    rel = "oqupy/tempo.py"
    ty = {"start_time": "Flt", "dt": "Flt", "step": "Int"}
    t, _ = translate_function(src, rel, "MeanFieldTempo._time", "mft_time", ty, "Flt",
                              ["start_time", "dt", "step"])
    out.append(t)
    eom = ("self._mean_field_system.field_eom",)
    # _compute_field_derivative(self, step, state_list, field)
    fn = src.function(rel, "MeanFieldTempo._compute_field_derivative")
    if [a.arg for a in fn.args.args] != ["self", "step", "state_list", "field"]:
        raise Untranslatable("MeanFieldTempo._compute_field_derivative: parameters")
    lets = []
    done = False
    for s in _mf_strip(fn.body):
        where = "%s:%d MeanFieldTempo._compute_field_derivative" % (rel, s.lineno)
        if _mf_is_reshape_rebind(s) == "state_list":
            continue
        if isinstance(s, ast.Return):
            args = _mf_eom_call(s.value, eom)
            if args is None:
                raise Untranslatable(where + ": does not return field_eom(...)")
            doc = where + ":  " + _mf_norm(s)
            out.append(_mf_flt_def("mft_fd_time", lets, args[0], ["start_time", "dt", "step"], doc))
            out.append(_mf_select("mft_fd_states", args[1], {"state_list": "state_list"},
                                  ["state_list"], doc))
            out.append(_mf_kdef("mft_fd_field", args[2], ["field"], doc))
            done = True
            break
        if isinstance(s, ast.Assign) and len(s.targets) == 1 and isinstance(s.targets[0], ast.Name) \
                and s.targets[0].id not in ("state_list", "field", "step"):
            lets.append((s.targets[0].id, s.value))
            continue
        raise Untranslatable(where + ": unexpected statement " + _mf_norm(s)[:100])
    if not done:
        raise Untranslatable("MeanFieldTempo._compute_field_derivative: no return")
    # _compute_field(self, step, state_list, field, next_state_list)
    fn = src.function(rel, "MeanFieldTempo._compute_field")
    if [a.arg for a in fn.args.args] != ["self", "step", "state_list", "field", "next_state_list"]:
        raise Untranslatable("MeanFieldTempo._compute_field: parameters")
    _mf_heun_body(fn.body, out, "mft_cf", rel, "MeanFieldTempo._compute_field", eom,
                  ["start_time", "dt", "step"])
    _mf_compute_labels(src, out)


def _mf_compute_labels(src, out):
    """MeanFieldTempo.compute: which step labels (through self._time) the states and field that
    are added to the dynamics -- the step returned by the backend or something else (a counter of
    the loop of the current call) -- and that the returned states / field are the ones stored"""
    rel, qual = "oqupy/tempo.py", "MeanFieldTempo.compute"
    fn = src.function(rel, qual)
    body = []
    for x in _mf_strip(fn.body):            # a `with progress(...) as prog_bar:` is transparent here
        body.extend(_mf_strip(x.body) if isinstance(x, ast.With) else [x])
    ty = {"returned_step": "Int", "loop_counter": "Int"}

    class _Ren(ast.NodeTransformer):
        def __init__(self, m):
            self.m = m

        def visit_Name(self, node):
            return ast.Name(id=self.m.get(node.id, "py_" + node.id), ctx=ast.Load())

    def tuple3(stmts, callee, where):
        hits = [x for x in stmts if isinstance(x, ast.Assign) and isinstance(x.value, ast.Call)
                and _mf_norm(x.value.func) == callee and not x.value.args]
        if len(hits) != 1 or not isinstance(hits[0].targets[0], ast.Tuple) \
                or len(hits[0].targets[0].elts) != 3 \
                or not all(isinstance(e, ast.Name) for e in hits[0].targets[0].elts):
            raise Untranslatable("%s: result of %s" % (where, callee))
        return hits[0], [e.id for e in hits[0].targets[0].elts]

    def add_call(stmts, after, where):
        hits = [x for x in stmts if isinstance(x, ast.Expr) and isinstance(x.value, ast.Call)
                and _mf_norm(x.value.func) == "self._dynamics.add"]
        if len(hits) != 1 or stmts.index(hits[0]) < stmts.index(after) or hits[0].value.keywords \
                or len(hits[0].value.args) != 3:
            raise Untranslatable(where + ": the call of self._dynamics.add")
        t = hits[0].value.args[0]
        if not (isinstance(t, ast.Call) and _mf_norm(t.func) == "self._time" and len(t.args) == 1
                and not t.keywords):
            raise Untranslatable(where + ": the time handed to self._dynamics.add is not self._time(..)")
        return hits[0], t.args[0], hits[0].value.args[1], hits[0].value.args[2]

    # -- the initial record
    inits = [x for x in body if isinstance(x, ast.If)
             and _mf_norm(x.test) == "self._backend_instance.step is None"]
    if len(inits) != 1 or inits[0].orelse:
        raise Untranslatable(qual + ": initialisation block")
    ib = _mf_strip(inits[0].body)
    asg, (r, st, fl) = tuple3(ib, "self._backend_instance.initialize", qual)
    add, e, sa, fa = add_call(ib, asg, qual + " (initial)")
    if _mf_norm(sa) != st or _mf_norm(fa) != fl or st == "_" or fl == "_":
        raise Untranslatable(qual + ": the initial record does not store the backend's states/field")
    out.append(_mf_flt_def("mft_init_label_step", [], _Ren({r: "returned_step"}).visit(
        ast.parse(_mf_norm(e), mode="eval").body), ["returned_step"],
        "%s:%d %s:  %s" % (rel, add.lineno, qual, _mf_norm(add)), types=ty, ret="Int"))
    # -- the step loop
    loops = [x for x in body if isinstance(x, ast.For)]
    if len(loops) != 1 or not isinstance(loops[0].target, ast.Name) or loops[0].orelse \
            or not (isinstance(loops[0].iter, ast.Call) and _mf_norm(loops[0].iter.func) == "range"):
        raise Untranslatable(qual + ": the step loop")
    lb = _mf_strip(loops[0].body)
    asg, (r, st, fl) = tuple3(lb, "self._backend_instance.compute_step", qual)
    add, e, sa, fa = add_call(lb, asg, qual + " (loop)")
    resh = [x for x in lb if _mf_is_reshape_rebind_to(x) is not None]
    if len(resh) != 1 or _mf_is_reshape_rebind_to(resh[0]) != (_mf_norm(sa), st) \
            or not lb.index(asg) < lb.index(resh[0]) < lb.index(add) \
            or _mf_norm(fa) != fl or st == "_" or fl == "_":
        raise Untranslatable(qual + ": the loop does not store the backend's states/field")
    names = {loops[0].target.id: "loop_counter"}
    if r != "_":
        names[r] = "returned_step"          # bound after the loop variable in every iteration
    out.append(_mf_flt_def("mft_label_step", [], _Ren(names).visit(
        ast.parse(_mf_norm(e), mode="eval").body), ["returned_step", "loop_counter"],
        "%s:%d %s:  for %s in %s: ... %s = compute_step() ... %s" % (
            rel, add.lineno, qual, loops[0].target.id, _mf_norm(loops[0].iter),
            _mf_norm(asg.targets[0]), _mf_norm(add)), types=ty, ret="Int"))


def _mf_is_reshape_rebind_to(s):
    """Y = [state.reshape((hs_dim, hs_dim)) for state, hs_dim in zip(X, ...)]  ->  (Y, X)"""
    if not (isinstance(s, ast.Assign) and len(s.targets) == 1
            and isinstance(s.targets[0], ast.Name) and isinstance(s.value, ast.ListComp)):
        return None
    lc = s.value
    if len(lc.generators) != 1 or lc.generators[0].ifs:
        return None
    g = lc.generators[0]
    if _mf_norm(lc.elt) != "state.reshape((hs_dim, hs_dim))" or _mf_norm(g.target) != "(state, hs_dim)":
        return None
    it = g.iter
    if not (isinstance(it, ast.Call) and _mf_norm(it.func) == "zip" and len(it.args) == 2
            and isinstance(it.args[0], ast.Name)):
        return None
    return (s.targets[0].id, it.args[0].id)


def _mf_listcomp_call(value, func_pred):
    """[ f(args) for ... ]  ->  the Call node f(args)"""
    if isinstance(value, ast.ListComp) and isinstance(value.elt, ast.Call) \
            and func_pred(_mf_norm(value.elt.func)) and not value.elt.keywords:
        return value.elt
    return None


def _mf_backend(src, out):
    rel = "oqupy/backends/tempo_backend.py"
    qual = "MeanFieldTempoBackend.compute_step"
    fn = src.function(rel, qual)
    stmts = []
    for s in _mf_strip(fn.body):
        if isinstance(s, ast.Try):
            ok = (not s.orelse and not s.finalbody and s.handlers
                  and all(h.body and isinstance(h.body[-1], ast.Raise) and h.body[-1].exc is None
                          for h in s.handlers))
            if not ok:
                raise Untranslatable(qual + ": try block that does not re-raise")
            stmts.append("tryBegin")
            stmts.extend(s.body)
            stmts.append("tryEnd")
        else:
            stmts.append(s)
    tags = []
    lets = []                      # Int locals
    states = {}                    # python name -> cur | next
    fields = {}                    # python name -> current_field | current_field_derivative
    seen = set()
    SP = ["current_state_list", "next_state_list"]
    FP = ["current_field", "current_field_derivative"]

    def need(*tg):
        for x in tg:
            if x not in seen:
                raise Untranslatable("%s: `%s` used before it is computed" % (qual, x))

    def avail(order, table):
        """the values that exist at this point of the method, in canonical order"""
        return [p for p in order if p in table.values()]

    for s in stmts:
        if isinstance(s, str):
            tags.append(s)
            continue
        t = _mf_norm(s)
        where = "%s:%d %s" % (rel, s.lineno, qual)
        doc = where + ":  " + t
        if t == "current_step = self._step":
            tags.append("readStep")
            continue
        if isinstance(s, ast.Assign) and t.startswith("next_step = "):
            lets.append(("next_step", s.value))
            tags.append("nextStep")
            continue
        if t == "current_state_list = deepcopy(self._state_list)":
            states["current_state_list"] = "current_state_list"
            tags.append("copyStates")
            continue
        if t == "current_field = self._field":
            fields["current_field"] = "current_field"
            tags.append("readField")
            continue
        if isinstance(s, ast.Assign) and _mf_norm(s.targets[0]) == "current_field_derivative":
            c = s.value
            if not (isinstance(c, ast.Call) and _mf_norm(c.func) == "self._compute_field_derivative"
                    and len(c.args) == 3 and not c.keywords):
                raise Untranslatable(where + ": field derivative call")
            out.append(_mf_flt_def("mftb_fd_step", lets, c.args[0], ["current_step"], doc, ret="Int"))
            out.append(_mf_select("mftb_fd_states", c.args[1], states, avail(SP, states), doc))
            out.append(_mf_select("mftb_fd_field", c.args[2], fields, avail(FP, fields), doc, "K"))
            fields["current_field_derivative"] = "current_field_derivative"
            seen.add("fieldDerivative")
            tags.append("fieldDerivative")
            continue
        if isinstance(s, ast.Assign) and _mf_norm(s.targets[0]) == "prop_tuple_list":
            c = _mf_listcomp_call(s.value, lambda f: f == "propagators")
            if c is None or len(c.args) != 3 or \
                    "self._propagators_list" not in _mf_norm(s.value.generators[0].iter):
                raise Untranslatable(where + ": propagators call")
            need("fieldDerivative")
            out.append(_mf_flt_def("mftb_prop_step", lets, c.args[0], ["current_step"], doc, ret="Int"))
            out.append(_mf_select("mftb_prop_field", c.args[1], fields, avail(FP, fields), doc, "K"))
            out.append(_mf_select("mftb_prop_deriv", c.args[2], fields, avail(FP, fields), doc, "K"))
            seen.add("propagators")
            tags.append("propagators")
            continue
        if isinstance(s, ast.Assign) and _mf_norm(s.targets[0]) == "networks_list" \
                and _mf_listcomp_call(s.value, lambda f: f == "backend.copy_networks") is not None:
            tags.append("saveNetworks")
            continue
        if isinstance(s, ast.Assign) and _mf_norm(s.targets[0]) == "next_state_list":
            c = _mf_listcomp_call(s.value, lambda f: f == "backend.compute_system_step")
            if c is None or len(c.args) != 2 or _mf_norm(c.args[1]) != "*prop_tuple" or \
                    _mf_norm(s.value.generators[0].iter) != "zip(self._backend_list, prop_tuple_list)":
                raise Untranslatable(where + ": system step call")
            need("propagators")
            out.append(_mf_flt_def("mftb_sys_step", lets, c.args[0], ["current_step"], doc, ret="Int"))
            states["next_state_list"] = "next_state_list"
            seen.add("systemStep")
            tags.append("systemStep")
            continue
        if isinstance(s, ast.Assign) and _mf_norm(s.targets[0]) == "next_field":
            c = s.value
            if not (isinstance(c, ast.Call) and _mf_norm(c.func) == "self._compute_field"
                    and len(c.args) == 4 and not c.keywords):
                raise Untranslatable(where + ": compute_field call")
            need("systemStep")
            out.append(_mf_flt_def("mftb_cf_step", lets, c.args[0], ["current_step"], doc, ret="Int"))
            out.append(_mf_select("mftb_cf_states", c.args[1], states, avail(SP, states), doc))
            out.append(_mf_select("mftb_cf_field", c.args[2], fields, avail(FP, fields), doc, "K"))
            out.append(_mf_select("mftb_cf_next_states", c.args[3], states, avail(SP, states), doc))
            seen.add("computeField")
            tags.append("computeField")
            continue
        if t == "self._state_list = next_state_list":
            need("systemStep")
            tags.append("commitStates")
            continue
        if t == "self._field = next_field":
            need("computeField")
            tags.append("commitField")
            continue
        if isinstance(s, ast.Assign) and _mf_norm(s.targets[0]) == "self._step":
            out.append(_mf_flt_def("mftb_commit_step", lets, s.value, ["current_step"], doc, ret="Int"))
            tags.append("commitStep")
            continue
        if t == "return (self._step, deepcopy(self._state_list), self._field)":
            tags.append("returnResult")
            continue
        raise Untranslatable(where + ": unexpected statement: " + t[:140])
    for x in ("readStep", "copyStates", "readField", "fieldDerivative", "propagators", "systemStep",
              "computeField", "commitStates", "commitField", "commitStep", "returnResult"):
        if tags.count(x) != 1:
            raise Untranslatable("%s: expected exactly one `%s` statement" % (qual, x))
    out.append("/-- %s:%d  %s (statement order) -/\ndef mftb_order : List MftOp :=\n  [%s]\n"
               % (rel, fn.lineno, qual, ", ".join("." + x for x in tags)))
    # TempoBackend.compute_step: the step handed to the propagators / to compute_system_step,
    # as a function of the counter before the call
    qual = "TempoBackend.compute_step"
    fn = src.function(rel, qual)
    cur = ast.Name(id="step", ctx=ast.Load())

    class _Sub(ast.NodeTransformer):
        def visit_Attribute(self, node):
            if _mf_norm(node) == "self._step":
                return cur
            return self.generic_visit(node)

    got = set()
    for s in _mf_strip(fn.body):
        t = _mf_norm(s)
        where = "%s:%d %s" % (rel, s.lineno, qual)
        if isinstance(s, ast.AugAssign) and _mf_norm(s.target) == "self._step" \
                and isinstance(s.op, ast.Add):
            cur = ast.BinOp(left=cur, op=ast.Add(), right=s.value)
            continue
        if isinstance(s, ast.Assign) and _mf_norm(s.targets[0]) == "(prop_1, prop_2)" \
                and isinstance(s.value, ast.Call) and _mf_norm(s.value.func) == "self._propagators" \
                and len(s.value.args) == 1:
            e = _Sub().visit(ast.parse(_mf_norm(s.value.args[0]), mode="eval").body)
            out.append(_mf_flt_def("tb_prop_step", [], e, ["step"], where + ":  " + t, ret="Int"))
            got.add("prop")
            continue
        if isinstance(s, ast.Assign) and _mf_norm(s.targets[0]) == "self._state" \
                and isinstance(s.value, ast.Call) \
                and _mf_norm(s.value.func) == "self.compute_system_step" and len(s.value.args) == 3 \
                and [_mf_norm(a) for a in s.value.args[1:]] == ["prop_1", "prop_2"]:
            if "prop" not in got:
                raise Untranslatable(where + ": system step before the propagators")
            e = _Sub().visit(ast.parse(_mf_norm(s.value.args[0]), mode="eval").body)
            out.append(_mf_flt_def("tb_sys_step", [], e, ["step"], where + ":  " + t, ret="Int"))
            got.add("sys")
            continue
        if isinstance(s, ast.Return):
            e = _Sub().visit(ast.parse("self._step", mode="eval").body)
            out.append(_mf_flt_def("tb_commit_step", [], e, ["step"],
                                   where + ":  counter when the method returns", ret="Int"))
            got.add("ret")
            continue
        raise Untranslatable(where + ": unexpected statement: " + t[:140])
    if got != {"prop", "sys", "ret"}:
        raise Untranslatable(qual + ": propagators / system step / return not all found")


def _mf_cdwf(src, out):
    rel = "oqupy/system_dynamics.py"
    qual = "compute_dynamics_with_field"
    fn = src.function(rel, qual)
    body = _mf_strip(fn.body)
    # -- the compute_field closure
    inner = [s for s in body if isinstance(s, ast.FunctionDef) and s.name == "compute_field"]
    if len(inner) != 1 or [a.arg for a in inner[0].args.args] != \
            ["t", "dt", "state_list", "field", "next_state_list"]:
        raise Untranslatable(qual + ": the `compute_field` closure")
    _mf_heun_body(inner[0].body, out, "cdwf_cf", rel, qual + ".compute_field",
                  ("mean_field_system.field_eom",), ["t", "dt"])
    # -- the propagators come from get_propagators(dt, start_time, ...) of each system
    pl = [s for s in body if isinstance(s, ast.Assign) and _mf_norm(s.targets[0]) == "propagators_list"]
    if len(pl) != 1 or not _mf_norm(pl[0].value).startswith(
            "[system.get_propagators(dt, start_time, subdiv_limit, liouvillian_epsrel) for system in"):
        raise Untranslatable(qual + ": construction of propagators_list")
    loops = [(i, s) for i, s in enumerate(body) if isinstance(s, ast.For)]
    loops = [(i, s) for i, s in loops if _mf_norm(s.target) == "step"]
    if len(loops) != 1:
        raise Untranslatable(qual + ": expected exactly one `for step in ...` loop")
    idx, loop = loops[0]
    if _mf_norm(loop.iter) != "range(num_steps + 1)" or loop.orelse:
        raise Untranslatable(qual + ": loop header " + _mf_norm(loop.iter))
    lb = _mf_strip(loop.body)
    tags = []
    pos = {}                      # tag -> index in lb
    t_expr = None
    alias = {}                    # python name -> (source name, index)
    info = {}
    for i, s in enumerate(lb):
        t = _mf_norm(s)
        where = "%s:%d %s" % (rel, s.lineno, qual)
        tgt = _mf_norm(s.targets[0]) if isinstance(s, ast.Assign) and len(s.targets) == 1 else None

        def put(tag):
            if tag in pos and tag not in ("applyCaps",):
                raise Untranslatable(where + ": second `%s` statement in the loop" % tag)
            pos[tag] = i
            tags.append(tag)
        if tgt == "t":
            t_expr = s
            put("time")
        elif tgt == "controls_tuple_list" and t.startswith(
                "controls_tuple_list = [prepare_controls(step, control) for control in"):
            put("getControls")
        elif tgt == "nodes_and_edges_list" and "_apply_system_superoperator" in t:
            which = None
            for key, tag in (("pre_measurement_control)", "applyPre"),
                             ("post_measurement_control)", "applyPost"),
                             ("first_half_prop)", "applyP1"), ("second_half_prop)", "applyP2")):
                if ("current_edges, %s" % key) in t:
                    which = tag
            if which is None:
                raise Untranslatable(where + ": superoperator application: " + t[:100])
            put(which)
        elif t == "if step == num_steps: break":
            put("breakIfLast")
        elif tgt == "caps_list":
            c = _mf_listcomp_call(s.value, lambda f: f == "_get_caps")
            if c is None or len(c.args) != 2:
                raise Untranslatable(where + ": caps")
            info["caps"] = (c.args[1], where + ":  " + t)
            put("getCaps")
        elif tgt == "state_tensor_list" and "_apply_caps(current_node, current_edges, caps)" in t:
            put("applyCaps")
        elif tgt == "state_list" and t.startswith(
                "state_list = [state_tensor.reshape((hs_dim, hs_dim)) for state_tensor, hs_dim in "
                "zip(state_tensor_list,"):
            put("reshapeStates")
        elif isinstance(s, ast.If) and _mf_norm(s.test) == "step == 0":
            if [_mf_norm(x) for x in s.body] != ["field = initial_field"] or len(s.orelse) != 1 \
                    or not isinstance(s.orelse[0], ast.Assign) \
                    or _mf_norm(s.orelse[0].targets[0]) != "field":
                raise Untranslatable(where + ": shape of the field update")
            c = s.orelse[0].value
            if not (isinstance(c, ast.Call) and _mf_norm(c.func) == "compute_field"
                    and len(c.args) == 5 and not c.keywords):
                raise Untranslatable(where + ": field update is not a compute_field call")
            info["update"] = (c, where + ":  " + _mf_norm(s.orelse[0]))
            put("fieldUpdate")
        elif isinstance(s, ast.Assign) and isinstance(s.targets[0], ast.Name) \
                and isinstance(s.value, ast.Name) and s.value.id in ("state_list", "t"):
            alias[s.targets[0].id] = (s.value.id, i)
            put("aliasStates" if s.value.id == "state_list" else "aliasTime")
        elif isinstance(s, ast.If) and _mf_norm(s.test) == "record_all":
            if [_mf_norm(x) for x in s.body] != ["system_states_list.append(state_list)",
                                                  "field_list.append(field)"] or s.orelse:
                raise Untranslatable(where + ": recording block")
            put("record")
        elif t == "prog_bar.update(step)":
            put("progress")
        elif tgt == "propagator_tuples_list":
            c = _mf_listcomp_call(s.value, lambda f: f == "propagators")
            if c is None or len(c.args) != 3 or \
                    _mf_norm(s.value.generators[0].iter) != "propagators_list":
                raise Untranslatable(where + ": propagators call")
            info["prop"] = (c, where + ":  " + t)
            put("propagators")
        elif tgt is not None and isinstance(s.targets[0], ast.Name) \
                and _mf_eom_call(s.value, ("mean_field_system.field_eom",)) is not None:
            info.setdefault("hoisted", {})[tgt] = (s, i)
            put("fieldDerivative")
        elif tgt == "pt_mpos_list":
            c = _mf_listcomp_call(s.value, lambda f: f == "_get_pt_mpos")
            if c is None or len(c.args) != 2:
                raise Untranslatable(where + ": pt mpos")
            info["mpo"] = (c.args[1], where + ":  " + t)
            put("getMpos")
        elif tgt == "nodes_and_edges_list" and "_apply_pt_mpos(current_node, current_edges, pt_mpos)" in t:
            put("applyMpo")
        else:
            raise Untranslatable(where + ": unexpected statement in the loop: " + t[:140])
    for x in ("time", "breakIfLast", "getCaps", "applyCaps", "reshapeStates", "fieldUpdate",
              "record", "propagators", "getMpos", "applyP1", "applyMpo", "applyP2"):
        if x not in pos:
            raise Untranslatable("%s: no `%s` statement in the loop" % (qual, x))
    if not (pos["time"] < pos["breakIfLast"] < pos["getCaps"] < pos["applyCaps"]
            < pos["reshapeStates"] < pos["fieldUpdate"]):
        raise Untranslatable(qual + ": order of time / break / state read-out / field update")
    out.append(_mf_flt_def("cdwf_t", [], t_expr.value, ["start_time", "dt", "step"],
                           "%s:%d %s:  %s" % (rel, t_expr.lineno, qual, _mf_norm(t_expr))))

    # values of the loop's names at a given statement index `at` of iteration `step`
    def loop_env(at):
        lets, stab = [("t", "(cdwf_t start_time dt step)")], {}
        sub = {"t": ("start_time", "dt", "step")}
        if pos["reshapeStates"] < at:
            stab["state_list"] = "cur"
        for nm, (srcn, i) in alias.items():
            lag = 0 if i < at else 1
            if srcn == "t":
                lets.append((nm, "(cdwf_t start_time dt step)" if lag == 0
                             else "(cdwf_t start_time dt (step - (1 : Int)))"))
                sub[nm] = ("start_time", "dt", "step")
            else:
                stab[nm] = "cur" if lag == 0 else "prev"
        return lets, stab, sub

    # -- the field update of iteration step >= 1
    c, doc = info["update"]
    lets, stab, sub = loop_env(pos["fieldUpdate"])
    out.append(_mf_flt_def("cdwf_loop_cf_time", lets, c.args[0], ["start_time", "dt", "step"], doc,
                           subst=sub))
    out.append(_mf_flt_def("cdwf_loop_cf_dt", lets, c.args[1], ["start_time", "dt", "step"], doc,
                           subst=sub))
    out.append(_mf_select("cdwf_loop_cf_states", c.args[2], stab, ["prev", "cur"], doc))
    if _mf_norm(c.args[3]) != "field":
        raise Untranslatable(doc + ": the field argument is not the loop's `field`")
    out.append(_mf_select("cdwf_loop_cf_next_states", c.args[4], stab, ["prev", "cur"], doc))
    # -- the propagators of iteration `step`
    c, doc = info["prop"]
    if pos["propagators"] < pos["fieldUpdate"]:
        raise Untranslatable(doc + ": propagators computed before the field update")
    lets, stab, sub = loop_env(pos["propagators"])
    out.append(_mf_flt_def("cdwf_prop_step", lets, c.args[0], ["step"], doc, ret="Int", subst=sub))
    if _mf_norm(c.args[1]) != "field":
        raise Untranslatable(doc + ": the field argument is not the loop's `field`")
    args = _mf_eom_call(c.args[2], ("mean_field_system.field_eom",))
    if args is not None:
        # evaluated inside the comprehension over propagators_list: once per system
        evals = "number_of_systems"
    elif isinstance(c.args[2], ast.Name) and c.args[2].id in info.get("hoisted", {}):
        hs = info["hoisted"][c.args[2].id]
        if not pos["fieldUpdate"] < hs[1] < pos["propagators"]:
            raise Untranslatable(doc + ": the derivative is not computed between the field update "
                                 "and the propagators")
        args = _mf_eom_call(hs[0].value, ("mean_field_system.field_eom",))
        lets, stab, sub = loop_env(hs[1])
        evals = "1"
    if args is None:
        raise Untranslatable(doc + ": the derivative is not a field_eom call")
    out.append("/-- %s: how often field_eom is evaluated for the derivative handed to the "
               "propagators of one step -/\ndef cdwf_fd_evals (number_of_systems : Nat) : Nat :=\n  %s\n"
               % (doc.replace("-/", "- /"), evals))
    out.append(_mf_flt_def("cdwf_fd_time", lets, args[0], ["start_time", "dt", "step"], doc, subst=sub))
    out.append(_mf_select("cdwf_fd_states", args[1], stab, ["prev", "cur"], doc))
    if _mf_norm(args[2]) != "field":
        raise Untranslatable(doc + ": the field handed to field_eom is not the loop's `field`")
    e, doc = info["mpo"]
    out.append(_mf_flt_def("cdwf_mpo_step", [], e, ["step"], doc, ret="Int"))
    e, doc = info["caps"]
    out.append(_mf_flt_def("cdwf_caps_step", [], e, ["step"], doc, ret="Int"))
    out.append("/-- %s:%d  %s:  for step in range(num_steps + 1): ...   (statement order) -/\n"
               "def cdwf_loop_order : List CdwfOp :=\n  [%s]\n"
               % (rel, loop.lineno, qual, ", ".join("." + x for x in tags)))

    # -- after the loop: the loop was left by `break` in iteration step == num_steps; names bound
    #    before the break hold the values of that iteration, all others those of num_steps - 1
    def final_env():
        lets = [("step", ast.Name(id="num_steps", ctx=ast.Load())),
                ("t", "(cdwf_t start_time dt num_steps)")]
        stab = {"final_state_list": "cur", "state_list": "prev"}
        sub = {"t": ("start_time", "dt", "num_steps")}
        for nm, (srcn, i) in alias.items():
            if i < pos["breakIfLast"]:
                raise Untranslatable(qual + ": alias assigned before the break")
            if srcn == "t":
                lets.append((nm, "(cdwf_t start_time dt (num_steps - (1 : Int)))"))
                sub[nm] = ("start_time", "dt", "num_steps")
            else:
                stab[nm] = "prev"
        return lets, stab, sub

    after = []
    guarded = None
    for s in body[idx + 1:]:
        t = _mf_norm(s)
        where = "%s:%d %s" % (rel, s.lineno, qual)
        tgt = _mf_norm(s.targets[0]) if isinstance(s, ast.Assign) and len(s.targets) == 1 else None
        call = None
        if tgt == "caps_list":
            c = _mf_listcomp_call(s.value, lambda f: f == "_get_caps")
            if c is None or len(c.args) != 2:
                raise Untranslatable(where + ": caps")
            lets, stab, sub = final_env()
            out.append(_mf_flt_def("cdwf_final_caps_step", lets[:1], c.args[1], ["num_steps"],
                                   where + ":  " + t, ret="Int"))
            after.append("getCaps")
        elif tgt == "state_tensor_list" and "_apply_caps(current_node, current_edges, caps)" in t:
            after.append("applyCaps")
        elif tgt == "final_state_list" and t.startswith(
                "final_state_list = [state_tensor.reshape(hs_dim, hs_dim) for state_tensor, hs_dim "
                "in zip(state_tensor_list,"):
            after.append("reshapeStates")
        elif t == "system_states_list.append(final_state_list)":
            after.append("appendStates")
        elif tgt == "final_field":
            call, guarded = s.value, False
        elif isinstance(s, ast.If) and _mf_norm(s.test) == "num_steps == 0" \
                and [_mf_norm(x) for x in s.body] == ["final_field = initial_field"] \
                and len(s.orelse) == 1 and isinstance(s.orelse[0], ast.Assign) \
                and _mf_norm(s.orelse[0].targets[0]) == "final_field":
            call, guarded = s.orelse[0].value, True
        elif t == "field_list.append(final_field)":
            after.append("appendField")
        elif t.startswith("prog_bar."):
            after.append("progress")
        elif isinstance(s, ast.If) and _mf_norm(s.test) == "record_all" and \
                all(_mf_norm(x).startswith("times = ") for x in list(s.body) + list(s.orelse)):
            after.append("makeTimes")
        elif isinstance(s, ast.Return) and t == ("return MeanFieldDynamics(times=list(times), "
                                                 "system_states_list=system_states_list, "
                                                 "fields=field_list)"):
            after.append("returnResult")
        else:
            raise Untranslatable(where + ": unexpected statement after the loop: " + t[:140])
        if call is not None:
            if not (isinstance(call, ast.Call) and _mf_norm(call.func) == "compute_field"
                    and len(call.args) == 5 and not call.keywords):
                raise Untranslatable(where + ": final field is not a compute_field call")
            if "reshapeStates" not in after:
                raise Untranslatable(where + ": final field before the final states")
            doc = where + ":  " + _mf_norm(call)
            lets, stab, sub = final_env()
            out.append(_mf_flt_def("cdwf_final_cf_time", lets, call.args[0],
                                   ["start_time", "dt", "num_steps"], doc, subst=sub))
            out.append(_mf_flt_def("cdwf_final_cf_dt", lets, call.args[1],
                                   ["start_time", "dt", "num_steps"], doc, subst=sub))
            out.append(_mf_select("cdwf_final_cf_states", call.args[2], stab, ["prev", "cur"], doc))
            if _mf_norm(call.args[3]) != "field":
                raise Untranslatable(doc + ": the field argument is not the loop's `field`")
            out.append(_mf_select("cdwf_final_cf_next_states", call.args[4], stab,
                                  ["prev", "cur"], doc))
            after.append("finalField")
    if guarded is None or after.count("finalField") != 1 or after.count("appendStates") != 1 \
            or after.count("appendField") != 1 or after[-1] != "returnResult":
        raise Untranslatable(qual + ": shape of the block after the loop")
    out.append("/-- %s: with `num_steps == 0` no loop iteration binds `field` / the previous states; "
               "true iff the final field is then taken to be `initial_field` -/\n"
               "def cdwf_zero_steps_guarded : Bool := %s\n" % (qual, "true" if guarded else "false"))
    out.append("/-- %s: statements after the loop (statement order) -/\n"
               "def cdwf_after_order : List CdwfOp :=\n  [%s]\n"
               % (qual, ", ".join("." + x for x in after)))
    # -- compute_dynamics (the field-free reference): step handed to propagators / PT-MPOs
    fn = src.function(rel, "compute_dynamics")
    loops = [s for s in fn.body if isinstance(s, ast.For) and _mf_norm(s.target) == "step"]
    if len(loops) != 1 or _mf_norm(loops[0].iter) != "range(num_steps + 1)":
        raise Untranslatable("compute_dynamics: loop header")
    found = {}
    for s in loops[0].body:
        t = _mf_norm(s)
        if isinstance(s, ast.Assign) and _mf_norm(s.targets[0]) == "(first_half_prop, second_half_prop)" \
                and isinstance(s.value, ast.Call) and _mf_norm(s.value.func) == "propagators" \
                and len(s.value.args) == 1:
            found["cd_prop_step"] = (s.value.args[0], s)
        if isinstance(s, ast.Assign) and _mf_norm(s.targets[0]) == "pt_mpos" \
                and isinstance(s.value, ast.Call) and _mf_norm(s.value.func) == "_get_pt_mpos" \
                and len(s.value.args) == 2:
            found["cd_mpo_step"] = (s.value.args[1], s)
    for nm in ("cd_prop_step", "cd_mpo_step"):
        if nm not in found:
            raise Untranslatable("compute_dynamics: " + nm)
        e, s = found[nm]
        out.append(_mf_flt_def(nm, [], e, ["step"], "%s:%d compute_dynamics:  %s"
                               % (rel, s.lineno, _mf_norm(s)), ret="Int"))


def _mf_find_calls(node, pred):
    return [n for n in ast.walk(node) if isinstance(n, ast.Call) and pred(_mf_norm(n.func))]


def _mf_propagators(src, out):
    rel = "oqupy/system.py"
    for cls, pre, with_field in (("TimeDependentSystem", "tds", False),
                                 ("TimeDependentSystemWithField", "tdsf", True)):
        qual = cls + ".get_propagators"
        fn = src.function(rel, qual)
        if [a.arg for a in fn.args.args] != ["self", "dt", "start_time", "subdiv_limit", "epsrel"]:
            raise Untranslatable(qual + ": parameters")
        body = _mf_strip(fn.body)
        if len(body) != 2 or not isinstance(body[0], ast.If) \
                or _mf_norm(body[0].test) != "subdiv_limit is None" \
                or _mf_norm(body[1]) != "return propagators":
            raise Untranslatable(qual + ": unexpected shape")
        want_params = ["step", "field", "field_derivative"] if with_field else ["step"]
        for branch, kind in ((body[0].body, "sample"), (body[0].orelse, "int")):
            defs = [s for s in branch if isinstance(s, ast.FunctionDef)]
            if len(defs) != 1 or len(_mf_strip(branch)) != 1 or defs[0].name != "propagators" \
                    or [a.arg for a in defs[0].args.args] != want_params:
                raise Untranslatable("%s (%s branch): the `propagators` closure" % (qual, kind))
            lets = []
            lam_t0 = None
            halves = {}
            for s in _mf_strip(defs[0].body):
                t = _mf_norm(s)
                where = "%s:%d %s[%s]" % (rel, s.lineno, qual, kind)
                tgt = _mf_norm(s.targets[0]) if isinstance(s, ast.Assign) and len(s.targets) == 1 else None
                if tgt == "t":
                    lets.append(("t", s.value))
                    out.append(_mf_flt_def("%s_%s_t" % (pre, kind), [], s.value,
                                           ["start_time", "dt", "step"], where + ":  " + t))
                    continue
                if tgt == "liouvillian" and isinstance(s.value, ast.Lambda) and with_field \
                        and kind == "int":
                    lam = s.value
                    if [a.arg for a in lam.args.args] != ["tau"] or not isinstance(lam.body, ast.Call) \
                            or _mf_norm(lam.body.func) != "self.liouvillian" \
                            or [_mf_norm(a) for a in lam.body.args[1:]] != ["tau", "field", "field_derivative"]:
                        raise Untranslatable(where + ": integrand lambda")
                    lam_t0 = (lam.body.args[0], where + ":  " + t)
                    continue
                if tgt in ("first_step", "second_step"):
                    n = 1 if tgt == "first_step" else 2
                    if kind == "sample":
                        calls = _mf_find_calls(s.value, lambda f: f == "self.liouvillian")
                        if len(calls) != 1 or _mf_norm(s.value) != \
                                "expm(%s * dt / 2.0)" % _mf_norm(calls[0]):
                            raise Untranslatable(where + ": half-step propagator " + t[:100])
                        a = calls[0].args
                        if with_field:
                            if len(a) != 4 or [_mf_norm(x) for x in a[2:]] != ["field", "field_derivative"]:
                                raise Untranslatable(where + ": liouvillian arguments")
                            out.append(_mf_flt_def("%s_sample%d_t0" % (pre, n), lets, a[0],
                                                   ["start_time", "dt", "step"], where + ":  " + t))
                            a = a[1:]
                        elif len(a) != 1:
                            raise Untranslatable(where + ": liouvillian arguments")
                        out.append(_mf_flt_def("%s_sample%d" % (pre, n), lets, a[0],
                                               ["start_time", "dt", "step"], where + ":  " + t))
                    else:
                        calls = _mf_find_calls(s.value, lambda f: f == "integrate.quad_vec")
                        if len(calls) != 1 or _mf_norm(s.value) != "expm(%s[0])" % _mf_norm(calls[0]):
                            raise Untranslatable(where + ": half-step propagator " + t[:100])
                        c = calls[0]
                        kw = {k.arg: k.value for k in c.keywords}
                        integrand = "liouvillian" if with_field else "self.liouvillian"
                        if len(c.args) != 1 or _mf_norm(c.args[0]) != integrand \
                                or sorted(kw) != ["a", "b", "epsrel", "limit"]:
                            raise Untranslatable(where + ": quad_vec arguments")
                        for ab in ("a", "b"):
                            out.append(_mf_flt_def("%s_int%d_%s" % (pre, n, ab), lets, kw[ab],
                                                   ["start_time", "dt", "step"], where + ":  " + t))
                    halves[tgt] = True
                    continue
                if t == "return (first_step, second_step)":
                    continue
                raise Untranslatable(where + ": unexpected statement " + t[:120])
            if sorted(halves) != ["first_step", "second_step"]:
                raise Untranslatable("%s (%s): half steps" % (qual, kind))
            if with_field and kind == "int":
                if lam_t0 is None:
                    raise Untranslatable(qual + ": integrand lambda missing")
                out.append(_mf_flt_def("tdsf_int_t0", lets, lam_t0[0], ["start_time", "dt", "step"],
                                       lam_t0[1]))
    # the linearised field handed to the Hamiltonian
    cls = "TimeDependentSystemWithField"
    fn = src.function(rel, cls + "._linearised_hamiltonian")
    b = _mf_strip(fn.body)
    if [a.arg for a in fn.args.args] != ["self", "t0", "t", "field", "field_derivative"] or len(b) != 1 \
            or _mf_norm(b[0]) != ("return self._hamiltonian(t, self._linearised_field(t0, t, field, "
                                  "field_derivative))"):
        raise Untranslatable(cls + "._linearised_hamiltonian: unexpected shape")
    fn = src.function(rel, cls + "._linearised_field")
    b = _mf_strip(fn.body)
    if [a.arg for a in fn.args.args] != ["t0", "t", "field", "field_derivative"] or len(b) != 1 \
            or not isinstance(b[0], ast.Return):
        raise Untranslatable(cls + "._linearised_field: unexpected shape")

    class _Delta(ast.NodeTransformer):
        """float-only sub-expressions over t, t0 become the parameter `delta`"""
        found = []

        def visit_BinOp(self, node):
            names = {n.id for n in ast.walk(node) if isinstance(n, ast.Name)}
            if names and names <= {"t", "t0"}:
                self.found.append(node)
                return ast.Name(id="delta", ctx=ast.Load())
            return self.generic_visit(node)

    dl = _Delta()
    dl.found = []
    e = dl.visit(ast.parse(_mf_norm(b[0].value), mode="eval").body)
    if len(dl.found) != 1:
        raise Untranslatable(cls + "._linearised_field: expected one time difference")
    where = "%s:%d %s._linearised_field" % (rel, b[0].lineno, cls)
    out.append(_mf_flt_def("tdsf_lin_delta", [], dl.found[0], ["t0", "t"],
                           where + ":  the float factor " + _mf_norm(dl.found[0]),
                           types={"t0": "Flt"}))
    out.append(_mf_kdef("tdsf_lin_field", e, ["field", "field_derivative", "delta"],
                        where + ":  " + _mf_norm(b[0]) + "   (delta = tdsf_lin_delta t0 t, "
                        "a float, multiplied onto the complex derivative)"))
    # liouvillian(t0, t, field, field_derivative): float() casts, then the linearised Hamiltonian
    fn = src.function(rel, cls + ".liouvillian")
    if [a.arg for a in fn.args.args] != ["self", "t0", "t", "field", "field_derivative"]:
        raise Untranslatable(cls + ".liouvillian: parameters")
    hits = [s for s in ast.walk(fn) if isinstance(s, ast.Assign)
            and _mf_norm(s.targets[0]) == "hamiltonian"]
    if len(hits) != 1 or _mf_norm(hits[0].value) != \
            "self._linearised_hamiltonian(t0, t, field, field_derivative)":
        raise Untranslatable(cls + ".liouvillian: Hamiltonian evaluation")
    for s in ast.walk(fn):
        if isinstance(s, ast.Assign) and _mf_norm(s.targets[0]) in ("t0", "t", "field", "field_derivative"):
            nm = _mf_norm(s.targets[0])
            if _mf_norm(s.value) not in ("float(%s)" % nm, "complex(%s)" % nm):
                raise Untranslatable(cls + ".liouvillian: re-binding of " + nm)
    out.append("/-- %s:%d  %s.liouvillian(t0, t, field, field_derivative) evaluates the user's "
               "Hamiltonian at  (t, tdsf_lin_field field field_derivative (tdsf_lin_delta t0 t)) -/\n"
               "def tdsf_ham_shape_checked : Bool := true\n" % (rel, fn.lineno, cls))
    # the time handed to the user's Hamiltonian / rates / Lindblad operators by both liouvillians
    ty2 = {"t0": "Flt", "t": "Flt"}
    fn2 = src.function(rel, cls + "._linearised_hamiltonian")
    hcall = _mf_strip(fn2.body)[0].value
    out.append(_mf_flt_def("tdsf_ham_time", [], hcall.args[0], ["t0", "t"],
                           "%s:%d %s._linearised_hamiltonian:  first argument of self._hamiltonian"
                           % (rel, fn2.lineno, cls), types=ty2))
    for qual, pre, params in ((cls + ".liouvillian", "tdsf", ["t0", "t"]),
                              ("TimeDependentSystem.liouvillian", "tds", ["t"])):
        f = src.function(rel, qual)
        if pre == "tds":
            if [a.arg for a in f.args.args] != ["self", "t"]:
                raise Untranslatable(qual + ": parameters")
            hh = [s for s in ast.walk(f) if isinstance(s, ast.Assign)
                  and _mf_norm(s.targets[0]) == "hamiltonian"]
            if len(hh) != 1 or not (isinstance(hh[0].value, ast.Call)
                                    and _mf_norm(hh[0].value.func) == "self._hamiltonian"
                                    and len(hh[0].value.args) == 1 and not hh[0].value.keywords):
                raise Untranslatable(qual + ": Hamiltonian evaluation")
            for s in ast.walk(f):
                if isinstance(s, ast.Assign) and _mf_norm(s.targets[0]) == "t":
                    raise Untranslatable(qual + ": re-binding of t")
            out.append(_mf_flt_def("tds_ham_time", [], hh[0].value.args[0], ["t"],
                                   "%s:%d %s:  %s" % (rel, hh[0].lineno, qual, _mf_norm(hh[0])),
                                   types=ty2))
        for tgt, var, store, nm in (("gammas", "gamma", "self._gammas", "gamma"),
                                    ("lindblad_operators", "l_op", "self._lindblad_operators", "lop")):
            hh = [s for s in ast.walk(f) if isinstance(s, ast.Assign) and _mf_norm(s.targets[0]) == tgt]
            ok = len(hh) == 1 and isinstance(hh[0].value, ast.ListComp)
            if ok:
                lc = hh[0].value
                ok = (len(lc.generators) == 1 and not lc.generators[0].ifs
                      and _mf_norm(lc.generators[0].target) == var
                      and _mf_norm(lc.generators[0].iter) == store
                      and isinstance(lc.elt, ast.Call) and _mf_norm(lc.elt.func) == var
                      and len(lc.elt.args) == 1 and not lc.elt.keywords)
            if not ok:
                raise Untranslatable("%s: evaluation of %s" % (qual, tgt))
            out.append(_mf_flt_def("%s_%s_time" % (pre, nm), [], hh[0].value.elt.args[0], params,
                                   "%s:%d %s:  %s" % (rel, hh[0].lineno, qual, _mf_norm(hh[0])),
                                   types=ty2))
        rets = [s for s in ast.walk(f) if isinstance(s, ast.Return)]
        if len(rets) != 1 or _mf_norm(rets[0].value) != "_liouvillian(hamiltonian, gammas, lindblad_operators)":
            raise Untranslatable(qual + ": return value")


def _mf_const(node, consts, where):
    """value of a default-argument expression: None, numbers, names of oqupy/config.py, + - * / **"""
    if isinstance(node, ast.Constant) and (node.value is None or (
            isinstance(node.value, (int, float)) and not isinstance(node.value, bool))):
        return node.value
    if isinstance(node, ast.Name) and node.id in consts:
        return consts[node.id]
    if isinstance(node, ast.UnaryOp) and isinstance(node.op, ast.USub):
        return -_mf_const(node.operand, consts, where)
    if isinstance(node, ast.BinOp) and isinstance(node.op, (ast.Add, ast.Sub, ast.Mult, ast.Div, ast.Pow)):
        x, y = _mf_const(node.left, consts, where), _mf_const(node.right, consts, where)
        if x is None or y is None:
            raise Untranslatable(where + ": arithmetic on None")
        return {ast.Add: lambda: x + y, ast.Sub: lambda: x - y, ast.Mult: lambda: x * y,
                ast.Div: lambda: x / y, ast.Pow: lambda: x ** y}[type(node.op)]()
    raise Untranslatable(where + ": default value " + _mf_norm(node)[:80])


def _mf_defaults(src, out):
    """default values of subdiv_limit / liouvillian_epsrel (None selects two-point sampling of the
    Liouvillian instead of its adaptive integration) and their way to get_propagators"""
    cfg = src.tree("oqupy/config.py")
    consts = {}
    for s in cfg.body:
        if isinstance(s, ast.Assign) and len(s.targets) == 1 and isinstance(s.targets[0], ast.Name):
            try:
                consts[s.targets[0].id] = _mf_const(s.value, consts, "config")
            except Untranslatable:
                pass
    for rel, qual, pre in (("oqupy/tempo.py", "TempoParameters.__init__", "tp"),
                           ("oqupy/system_dynamics.py", "compute_dynamics_with_field", "cdwf"),
                           ("oqupy/system_dynamics.py", "compute_dynamics", "cd")):
        fn = src.function(rel, qual)
        # the names must be the ones imported from oqupy.config
        imported = set()
        for s in src.tree(rel).body:
            if isinstance(s, ast.ImportFrom) and s.module == "oqupy.config":
                imported |= {a.asname or a.name for a in s.names}
        args = fn.args.args
        defaults = dict(zip([a.arg for a in args[len(args) - len(fn.args.defaults):]], fn.args.defaults))
        for a, d in zip(fn.args.kwonlyargs, fn.args.kw_defaults):
            if d is not None:
                defaults[a.arg] = d
        for nm, kind in (("subdiv_limit", "Int"), ("liouvillian_epsrel", "Rat")):
            where = "%s:%d %s" % (rel, fn.lineno, qual)
            if nm not in defaults:
                raise Untranslatable(where + ": no default for " + nm)
            d = defaults[nm]
            for n in ast.walk(d):
                if isinstance(n, ast.Name) and n.id not in imported:
                    raise Untranslatable(where + ": default of %s reads %s" % (nm, n.id))
            v = _mf_const(d, consts, where)
            if v is None:
                term = "none"
            elif kind == "Int":
                if not isinstance(v, int):
                    raise Untranslatable(where + ": non-integer default of " + nm)
                term = "some (%d : Int)" % v
            else:
                pq = float(v).as_integer_ratio()
                term = "some (mkRat (%d) %d)" % pq
            out.append("/-- %s:  default  %s = %s -/\ndef %s_default_%s : Option %s :=\n  %s\n"
                       % (where, nm, _mf_norm(d), pre, nm, kind, term))
        for s in ast.walk(fn) if pre != "tp" else []:
            if isinstance(s, (ast.Assign, ast.AugAssign)):
                tg = s.targets if isinstance(s, ast.Assign) else [s.target]
                if any(_mf_norm(t) in ("subdiv_limit", "liouvillian_epsrel") for t in tg):
                    raise Untranslatable("%s: re-binding of subdiv_limit / liouvillian_epsrel" % qual)
    # TempoParameters keeps what it is given
    fn = src.function("oqupy/tempo.py", "TempoParameters.__init__")
    asg = {}
    for s in ast.walk(fn):
        if isinstance(s, ast.Assign) and len(s.targets) == 1:
            asg.setdefault(_mf_norm(s.targets[0]), []).append(_mf_norm(s.value))
    if sorted(asg.get("tmp_subdiv_limit", [])) != ["None", "int(subdiv_limit)"] \
            or asg.get("self._subdiv_limit") != ["tmp_subdiv_limit"] \
            or asg.get("tmp_liouvillian_epsrel") != ["float(liouvillian_epsrel)"] \
            or asg.get("self._liouvillian_epsrel") != ["tmp_liouvillian_epsrel"]:
        raise Untranslatable("TempoParameters.__init__: storage of subdiv_limit / liouvillian_epsrel")
    for prop, attr in (("subdiv_limit", "self._subdiv_limit"),
                       ("liouvillian_epsrel", "self._liouvillian_epsrel")):
        hits = [c for c in src.function("oqupy/tempo.py", "TempoParameters", raw=True).body
                if isinstance(c, ast.FunctionDef) and c.name == prop
                and any(_mf_norm(d) == "property" for d in c.decorator_list)]
        if len(hits) != 1 or [_mf_norm(x) for x in _mf_strip(hits[0].body)] != ["return " + attr]:
            raise Untranslatable("TempoParameters.%s: not a plain read of %s" % (prop, attr))
    # ... and every method hands exactly these to get_propagators
    want_tp = ["self._parameters.dt", "self._start_time", "self._parameters.subdiv_limit",
               "self._parameters.liouvillian_epsrel"]
    want_fn = ["dt", "start_time", "subdiv_limit", "liouvillian_epsrel"]
    for rel, qual, want in (("oqupy/tempo.py", "Tempo._prepare_backend", want_tp),
                            ("oqupy/tempo.py", "MeanFieldTempo._prepare_backend", want_tp),
                            ("oqupy/system_dynamics.py", "compute_dynamics", want_fn),
                            ("oqupy/system_dynamics.py", "compute_dynamics_with_field", want_fn)):
        fn = src.function(rel, qual)
        calls = [n for n in ast.walk(fn) if isinstance(n, ast.Call)
                 and isinstance(n.func, ast.Attribute) and n.func.attr == "get_propagators"]
        if len(calls) != 1 or calls[0].keywords or [_mf_norm(a) for a in calls[0].args] != want:
            raise Untranslatable("%s: arguments of get_propagators" % qual)
    out.append("/-- Tempo and MeanFieldTempo hand (parameters.dt, start_time, parameters.subdiv_limit, "
               "parameters.liouvillian_epsrel) of their TempoParameters, compute_dynamics and "
               "compute_dynamics_with_field their own (dt, start_time, subdiv_limit, liouvillian_epsrel) "
               "to system.get_propagators; TempoParameters stores both values as given -/\n"
               "def propagator_settings_passthrough_checked : Bool := true\n")


@fragment("MeanFieldTimes")
def frag_meanfieldtimes(src):
    out = [MF_PREAMBLE]
    _mf_mft(src, out)
    _mf_backend(src, out)
    _mf_cdwf(src, out)
    _mf_propagators(src, out)
    _mf_defaults(src, out)
    return "\n".join(out)
# end of MeanFieldTimes


# ---------------------------------------------------------------------------
# GibbsLoop  (C11):  how GibbsTempo builds and drives TIBaseBackend -- time step, the
# coefficient function (which eta cells), operator tuple, propagator exponent, the
# orientation (`.T`) of every propagator factor in initialise / _influence_tensor /
# readout, the influence-factor formulas, the loop bound of compute(), what is stored
# in the dynamics (state or state.T) and how get_state normalises.
# ---------------------------------------------------------------------------

EXTRA_IMPORTS["GibbsLoop"] = "import Mathlib.Algebra.Ring.Defs\nimport Mathlib.Algebra.Field.Defs\n"

_GL_TB = "oqupy/backends/tempo_backend.py"
_GL_TP = "oqupy/tempo.py"


def _gl_norm(node):
    return " ".join(ast.unparse(node).split())


def _gl_body(fn):
    body = list(fn.body)
    if body and isinstance(body[0], ast.Expr) and isinstance(body[0].value, ast.Constant) \
            and isinstance(body[0].value.value, str):
        body = body[1:]
    return body


def _gl_bool(b):
    return "true" if b else "false"


def _gl_one_of(text, with_t, without_t, where):
    """`text` must be one of the two spellings; returns True for the transposed one"""
    if text == with_t:
        return True
    if text == without_t:
        return False
    raise Untranslatable("%s: unexpected statement: %s" % (where, text[:160]))


class _GLMonomial:
    """c * H^h * dt^t with an exact Gaussian-rational c (for the propagator exponent)"""

    def __init__(self, names):
        self.names = names          # unparse text -> (h, t) or a _GLMonomial value

    def ev(self, e):
        from fractions import Fraction as F
        if isinstance(e, ast.Constant):
            v = e.value
            if isinstance(v, bool):
                raise Untranslatable("boolean in propagator exponent")
            if isinstance(v, (int, float)):
                return ((F(v), F(0)), 0, 0)
            if isinstance(v, complex):
                return ((F(v.real), F(v.imag)), 0, 0)
            raise Untranslatable("constant %r in propagator exponent" % (v,))
        text = _gl_norm(e)
        if text in self.names:
            return self.names[text]
        if isinstance(e, ast.UnaryOp) and isinstance(e.op, ast.USub):
            (re, im), h, t = self.ev(e.operand)
            return ((-re, -im), h, t)
        if isinstance(e, ast.BinOp) and isinstance(e.op, (ast.Mult, ast.Div)):
            (ar, ai), ah, at = self.ev(e.left)
            (br, bi), bh, bt = self.ev(e.right)
            if isinstance(e.op, ast.Mult):
                return ((ar * br - ai * bi, ar * bi + ai * br), ah + bh, at + bt)
            if bh or bt:
                raise Untranslatable("division by a non-constant in the propagator exponent")
            n = br * br + bi * bi
            if n == 0:
                raise Untranslatable("division by zero in the propagator exponent")
            return (((ar * br + ai * bi) / n, (ai * br - ar * bi) / n), ah, at)
        raise Untranslatable("propagator exponent: " + text[:120])


class _GLVec:
    """numpy vector expressions of TIBaseBackend's influence factors -> Lean over a ring K.
    Vectors are functions of an index; the coefficient enters through cRe / cIm."""

    def __init__(self, names):
        self.names = names      # python name -> lean template with %s for the index

    def tr(self, e, idx):
        if isinstance(e, ast.Name):
            if e.id in self.names:
                t = self.names[e.id]
                return t % idx if "%s" in t else t
            raise Untranslatable("name %s in a backend influence formula" % e.id)
        if isinstance(e, ast.Attribute):
            text = _gl_norm(e)
            if text in self.names:
                return self.names[text]
            raise Untranslatable("attribute %s in a backend influence formula" % text)
        if isinstance(e, ast.Subscript):
            text = _gl_norm(e)
            if text in self.names:
                t = self.names[text]
                return t % idx if "%s" in t else t
            raise Untranslatable("subscript %s in a backend influence formula" % text)
        if isinstance(e, ast.Constant):
            if e.value == 1j and isinstance(e.value, complex):
                return "iUnit"
            raise Untranslatable("constant %r in a backend influence formula" % (e.value,))
        if isinstance(e, ast.UnaryOp) and isinstance(e.op, ast.USub):
            return "(-%s)" % self.tr(e.operand, idx)
        if isinstance(e, ast.BinOp) and isinstance(e.op, (ast.Add, ast.Mult, ast.Sub)):
            sym = {ast.Add: "+", ast.Mult: "*", ast.Sub: "-"}[type(e.op)]
            return "(%s %s %s)" % (self.tr(e.left, idx), sym, self.tr(e.right, idx))
        if isinstance(e, ast.Call):
            ch = attr_chain(e.func)
            if ch in (["exp"], ["np", "exp"]) and len(e.args) == 1:
                return "(E %s)" % self.tr(e.args[0], idx)
            if ch in (["outer"], ["np", "outer"]) and len(e.args) == 2 and idx is None:
                return "(%s * %s)" % (self.tr(e.args[0], "x"), self.tr(e.args[1], "y"))
        raise Untranslatable("backend influence formula: " + _gl_norm(e)[:120])


_GL_SIG = ("{K : Type} [CommRing K] (E : K → K) (iUnit cRe cIm : K) "
           "(ops0 ops1 ops2 : ℕ → K)")


def _gl_time(src, out):
    ty = {"temperature": "Flt", "n_steps": "Int", "step": "Int", "dt": "Flt"}
    t, _ = translate_function(src, _GL_TP, "GibbsParameters.time_step_length", "time_step_length",
                              ty, "Flt", ["temperature", "n_steps"])
    out.append(t)
    t, _ = translate_function(src, _GL_TP, "GibbsTempo._time", "gibbs_time", ty, "Flt",
                              ["dt", "step"])
    out.append(t)
    fn = src.function(_GL_TP, "GibbsTempo.__init__")
    want = {"self._correlations": "self._bath.correlations",
            "self._temperature": "self._correlations.temperature",
            "self._dt": "self._parameters.time_step_length(self._temperature)"}
    for tgt, val in want.items():
        hits = src.assignment(fn, tgt)
        if len(hits) != 1 or _gl_norm(hits[0].value) != val:
            raise Untranslatable("GibbsTempo.__init__: %s is not %s" % (tgt, val))
    out.append("/-- %s:%d  GibbsTempo.__init__:  self._dt = self._parameters.time_step_length("
               "self._temperature), the temperature being that of the bath correlations -/\n"
               "def dt_is_time_step_length : Bool := true\n" % (_GL_TP, fn.lineno))


def _gl_coeffs(src, out):
    fn = src.function(_GL_TP, "GibbsTempo._prepare_backend")
    inner = [s for s in fn.body if isinstance(s, ast.FunctionDef) and s.name == "coeffs"]
    if len(inner) != 1 or [a.arg for a in inner[0].args.args] != ["k"]:
        raise Untranslatable("GibbsTempo._prepare_backend: no inner `coeffs(k)`")
    body = _gl_body(inner[0])
    if len(body) != 2 or not isinstance(body[0], ast.Assign) or not isinstance(body[1], ast.Return):
        raise Untranslatable("coeffs(k): expected `shape = ..; return ..`")
    sh = body[0]
    if _gl_norm(sh.targets[0]) != "shape" or not isinstance(sh.value, ast.IfExp) \
            or not isinstance(sh.value.body, ast.Constant) or not isinstance(sh.value.orelse, ast.Constant):
        raise Untranslatable("coeffs(k): shape selection " + _gl_norm(sh))
    tr = FnTranslator({"k": "Int", "dt": "Flt"})
    cond = tr.expr(sh.value.test)
    if cond[1] != "Bool":
        raise Untranslatable("coeffs(k): shape test")
    out.append(emit_def("coeff_first_shape", tr, cond[0], "Bool", ["k"],
                        "%s:%d  coeffs(k):  %s" % (_GL_TP, sh.lineno, _gl_norm(sh))))
    out.append('def coeff_shape_then : String := "%s"\ndef coeff_shape_else : String := "%s"\n'
               % (sh.value.body.value, sh.value.orelse.value))
    call = body[1].value
    if not (isinstance(call, ast.Call)
            and attr_chain(call.func) == ["self", "_correlations", "correlation_2d_integral"]
            and len(call.args) == 2):
        raise Untranslatable("coeffs(k): return is not correlation_2d_integral(delta, time_1, ..)")
    kw = {k.arg: _gl_norm(k.value) for k in call.keywords}
    if kw != {"shape": "shape", "matsubara": "True"}:
        raise Untranslatable("coeffs(k): keywords %r" % kw)
    for name, arg in (("coeff_delta", call.args[0]), ("coeff_time1", call.args[1])):
        tr = FnTranslator({"k": "Int", "dt": "Flt"})
        term = tr.to_flt(tr.expr(arg))
        out.append(emit_def(name, tr, term, "Flt", ["dt", "k"],
                            "%s:%d  coeffs(k): correlation_2d_integral(%s, %s, shape=shape, "
                            "matsubara=True)" % (_GL_TP, call.lineno, _gl_norm(call.args[0]),
                                                 _gl_norm(call.args[1]))))
    # the eta-function combinations behind the two shapes
    rel = "oqupy/bath_correlations.py"
    c2d = src.function(rel, "CustomSD.correlation_2d_integral")
    node = [s for s in c2d.body if isinstance(s, ast.If)]
    if not node:
        raise Untranslatable("correlation_2d_integral: no shape dispatch")
    node = node[0]
    found = {}
    offset_blocks = []
    guard_tests = []
    while isinstance(node, ast.If):
        test = _gl_norm(node.test)
        if not test.startswith("shape == "):
            raise Untranslatable("correlation_2d_integral: dispatch test " + test)
        shape = ast.literal_eval(test[len("shape == "):])
        body = list(node.body)
        # an extra correction that is active only for cells away from the origin
        # (`if time_1 != 0.0: ...`) does not concern the coefficients, which ask for the
        # triangle at time_1 = 0.0 only (checked below through coeff_time1 at k = 0)
        if len(body) == 2 and isinstance(body[1], ast.If) and not body[1].orelse \
                and _gl_norm(body[1].test) == "time_1 != 0.0":
            offset_blocks.append(shape)
            guard_tests.append(body[1].test)
            body = body[:1]
        if len(body) != 1 or not isinstance(body[0], ast.Assign) \
                or _gl_norm(body[0].targets[0]) != "integral":
            raise Untranslatable("correlation_2d_integral[%s]: branch shape" % shape)
        found[shape] = body[0].value
        node = node.orelse[0] if len(node.orelse) == 1 else None

    def terms(e, sign):
        if isinstance(e, ast.BinOp) and isinstance(e.op, (ast.Add, ast.Sub)):
            return terms(e.left, sign) + terms(e.right, sign if isinstance(e.op, ast.Add) else -sign)
        w = 1
        if isinstance(e, ast.BinOp) and isinstance(e.op, ast.Mult) and isinstance(e.left, ast.Constant):
            v = e.left.value
            if isinstance(v, bool) or not isinstance(v, (int, float)) or v != int(v):
                raise Untranslatable("correlation_2d_integral: weight %r" % (v,))
            w, e = int(v), e.right
        if not (isinstance(e, ast.Call) and attr_chain(e.func) == ["self", "eta_function"]
                and len(e.args) == 1 and [k.arg for k in e.keywords] == [None]
                and _gl_norm(e.keywords[0].value) == "kwargs"):
            raise Untranslatable("correlation_2d_integral: term " + _gl_norm(e)[:100])
        off = {"time_1 + delta": 1, "time_1": 0, "time_1 - delta": -1}.get(_gl_norm(e.args[0]))
        if off is None:
            raise Untranslatable("correlation_2d_integral: eta argument " + _gl_norm(e.args[0]))
        return [(sign * w, off)]

    for shape, name in (("upper-triangle", "c2d_upper_terms"), ("square", "c2d_square_terms")):
        if shape not in found:
            raise Untranslatable("correlation_2d_integral: no branch for shape %r" % shape)
        ts = terms(found[shape], 1)
        out.append("/-- %s  correlation_2d_integral, shape '%s':  integral = %s ;\n"
                   "    as (weight, m) pairs: weight * eta_function(time_1 + m*delta, **kwargs) -/\n"
                   "def %s : List (Int × Int) := [%s]\n"
                   % (rel, shape, _gl_norm(found[shape]), name,
                      ", ".join("(%d, %d)" % t for t in ts)))
    out.append("/-- shapes whose branch carries an extra term guarded by `if time_1 != 0.0:` "
               "(inactive for the cells the Gibbs coefficients ask for) -/\n"
               "def c2d_offset_guarded_shapes : List String := [%s]\n"
               % ", ".join('"%s"' % x for x in offset_blocks))
    # the guard itself, as a function of the time_1 handed in (every guarded shape uses this test);
    # Props/C11 proves it false for every cell the coefficient function asks of a guarded shape
    gtr = FnTranslator({"time_1": "Flt"})
    gterm = gtr.expr(guard_tests[0])[0] if guard_tests else "false"
    if not guard_tests:
        gtr.var("time_1")
    out.append(emit_def("c2d_offset_guard", gtr, gterm, "Bool", ["time_1"],
                        "the test guarding the extra term of the shapes in c2d_offset_guarded_shapes: "
                        + (_gl_norm(guard_tests[0]) if guard_tests else "(no guarded shape)")))
    kws = [s for s in c2d.body if isinstance(s, ast.Assign) and _gl_norm(s.targets[0]) == "kwargs"]
    if len(kws) != 1 or "'matsubara': matsubara" not in _gl_norm(kws[0].value):
        raise Untranslatable("correlation_2d_integral: matsubara is not handed to eta_function")
    tail = [_gl_norm(s) for s in c2d.body[-2:]]
    if tail != ["if matsubara: integral = integral.real", "return integral"]:
        raise Untranslatable("correlation_2d_integral: tail is %r" % tail)
    out.append("/-- correlation_2d_integral(.., matsubara=True) hands `matsubara` on to eta_function and "
               "returns `integral.real` (a real number: the coefficient's `.imag` is 0) -/\n"
               "def coeff_is_real : Bool := true\n")


def _gl_prepare(src, out):
    fn = src.function(_GL_TP, "GibbsTempo._prepare_backend")
    hits = src.assignment(fn, "operators")
    if len(hits) != 1 or not isinstance(hits[0].value, ast.Tuple):
        raise Untranslatable("_prepare_backend: operators tuple")
    signs = []
    for el in hits[0].value.elts:
        t = _gl_norm(el)
        if t == "-self._bath.coupling_operator.diagonal()":
            signs.append(-1)
        elif t == "self._bath.coupling_operator.diagonal()":
            signs.append(1)
        elif t == "np.zeros((dim,))":
            signs.append(0)
        else:
            raise Untranslatable("_prepare_backend: operator entry " + t)
    out.append("/-- %s:%d  operators = %s ; entry i is ops_signs[i] * diag(coupling operator) -/\n"
               "def ops_signs : List Int := [%s]\n"
               % (_GL_TP, hits[0].lineno, _gl_norm(hits[0].value), ", ".join(str(s) for s in signs)))
    # the diagonal-coupling guard
    text = _gl_norm(fn)
    if "if not np.allclose(unitary_transform, np.identity(self.dimension)): raise NotImplementedError(" \
            not in text or "unitary_transform = self._bath.unitary_transform" not in text:
        raise Untranslatable("_prepare_backend: guard against non-diagonal coupling operators")
    # backend construction
    hits = src.assignment(fn, "self._backend_instance")
    if len(hits) != 1 or not isinstance(hits[0].value, ast.Call) \
            or attr_chain(hits[0].value.func) != ["TIBaseBackend"]:
        raise Untranslatable("_prepare_backend: TIBaseBackend(...) construction")
    call = hits[0].value
    args = [_gl_norm(a) for a in call.args]
    kw = {k.arg: _gl_norm(k.value) for k in call.keywords}
    if args != ["dim", "epsrel", "propagators(1)[0]", "coeffs", "operators"] \
            or kw != {"max_step": "max_step", "config": "self._backend_config"}:
        raise Untranslatable("_prepare_backend: TIBaseBackend arguments %r %r" % (args, kw))
    for tgt, val in (("max_step", "self._parameters.n_steps"), ("epsrel", "self._parameters.epsrel"),
                     ("dim", "self._dimension")):
        h = src.assignment(fn, tgt)
        if len(h) != 1 or _gl_norm(h[0].value) != val:
            raise Untranslatable("_prepare_backend: %s is not %s" % (tgt, val))
    bi = src.function(_GL_TB, "TIBaseBackend.__init__")
    pos = [a.arg for a in bi.args.args]
    if pos[:6] != ["self", "dimension", "truncation_precision", "propagator", "coefficients", "operators"]:
        raise Untranslatable("TIBaseBackend.__init__: parameter order %r" % pos)
    want = {"self._coefficients": "coefficients", "self._ops": "operators", "self._prop": "propagator",
            "self._initial_data": "eye(self._dim) if initial_data is None else initial_data",
            "self._step": "None", "self.data": "[self._initial_data]"}
    for tgt, val in want.items():
        h = src.assignment(bi, tgt)
        if len(h) != 1 or _gl_norm(h[0].value) != val:
            raise Untranslatable("TIBaseBackend.__init__: %s is not %s" % (tgt, val))
    out.append("/-- TIBaseBackend.__init__: data = [initial_data] (identity by default), step = None "
               "-/\ndef init_data_len : Nat := 1\n")
    # the bound on the MPS length when GibbsTempo passes no `max_mps_length` (it never does):
    #   self._kmax = <default> if max_mps_length is None else max_mps_length
    if "max_mps_length" in kw or len(call.args) > 6:
        raise Untranslatable("_prepare_backend: GibbsTempo passes max_mps_length")
    h = src.assignment(bi, "self._kmax")
    if len(h) != 1 or not isinstance(h[0].value, ast.IfExp) \
            or _gl_norm(h[0].value.test) != "max_mps_length is None" \
            or _gl_norm(h[0].value.orelse) != "max_mps_length":
        raise Untranslatable("TIBaseBackend.__init__: self._kmax is not `<default> if max_mps_length "
                             "is None else max_mps_length`")
    dflt = h[0].value.body
    tr = FnTranslator({"max_step": "Int"})
    if isinstance(dflt, ast.Name) and dflt.id != "max_step":
        # a module-level integer constant of oqupy/config.py, imported by name
        cfg = src.tree("oqupy/config.py")
        vals = [n.value for n in cfg.body if isinstance(n, ast.Assign) and len(n.targets) == 1
                and isinstance(n.targets[0], ast.Name) and n.targets[0].id == dflt.id]
        imported = any(isinstance(n, ast.ImportFrom) and n.module == "oqupy.config"
                       and any(a.name == dflt.id and a.asname is None for a in n.names)
                       for n in src.tree(_GL_TB).body)
        if len(vals) != 1 or not imported or not isinstance(vals[0], ast.Constant) \
                or isinstance(vals[0].value, bool) or not isinstance(vals[0].value, int):
            raise Untranslatable("TIBaseBackend.__init__: default MPS length bound %s" % dflt.id)
        term = "(%d : Int)" % vals[0].value
        tr.var("max_step")
    else:
        t = tr.expr(dflt)
        if t[1] != "Int":
            raise Untranslatable("TIBaseBackend.__init__: default MPS length bound is not an integer")
        term = t[0]
        if "max_step" not in tr.free:
            tr.var("max_step")
    out.append(emit_def("default_kmax", tr, term, "Int", ["max_step"],
                        "%s:%d  TIBaseBackend.__init__:  self._kmax = %s   (GibbsTempo passes "
                        "max_step = n_steps and no max_mps_length)" % (_GL_TB, h[0].lineno,
                                                                       _gl_norm(h[0].value))))
    # the truncation of the chain in compute_step:  if len(self._mps) > self._kmax + 1: pop the first site
    cs = src.function(_GL_TB, "TIBaseBackend.compute_step")
    pops = [n for n in ast.walk(cs) if isinstance(n, ast.If) and "self._mps.pop(" in _gl_norm(n)]
    if len(pops) != 1 or pops[0].orelse:
        raise Untranslatable("TIBaseBackend.compute_step: expected one block that pops an MPS site")
    tr = FnTranslator({"len_mps": "Int", "kmax": "Int"})
    t = tr.expr(pops[0].test)
    if t[1] != "Bool":
        raise Untranslatable("TIBaseBackend.compute_step: pop condition")
    out.append(emit_def("mps_pops", tr, t[0], "Bool", ["len_mps", "kmax"],
                        "%s:%d  TIBaseBackend.compute_step:  if %s: the first MPS site is summed out and "
                        "merged into its neighbour (a memory cut-off)" % (_GL_TB, pops[0].lineno,
                                                                          _gl_norm(pops[0].test))))
    # the propagator: expm(coefficient * H * dt)
    h = src.assignment(fn, "propagators")
    if len(h) != 1 or not isinstance(h[0].value, ast.Call) \
            or attr_chain(h[0].value.func) != ["self", "_system", "get_unitary_propagators"] \
            or len(h[0].value.args) != 4 or h[0].value.keywords:
        raise Untranslatable("_prepare_backend: propagators = get_unitary_propagators(..)")
    from fractions import Fraction as F
    dt_arg = _GLMonomial({"self._dt": ((F(1), F(0)), 0, 1)}).ev(h[0].value.args[0])
    gu = src.function("oqupy/system.py", "System.get_unitary_propagators")
    if [a.arg for a in gu.args.args][:2] != ["self", "dt"]:
        raise Untranslatable("System.get_unitary_propagators: first parameter is not dt")
    inner = [s for s in gu.body if isinstance(s, ast.FunctionDef) and s.name == "propagators"]
    if len(inner) != 1 or [_gl_norm(s) for s in _gl_body(inner[0])] != ["return (first_step, second_step)"] \
            or _gl_norm(gu.body[-1]) != "return propagators":
        raise Untranslatable("System.get_unitary_propagators: propagators(step) shape")
    fs = src.assignment(gu, "first_step")
    if len(fs) != 1 or not isinstance(fs[0].value, ast.Call) or attr_chain(fs[0].value.func) != ["expm"] \
            or len(fs[0].value.args) != 1:
        raise Untranslatable("System.get_unitary_propagators: first_step = expm(..)")
    (re, im), hp, tp = _GLMonomial({"self._hamiltonian": ((F(1), F(0)), 1, 0),
                                    "dt": dt_arg}).ev(fs[0].value.args[0])
    if hp != 1 or tp != 1:
        raise Untranslatable("propagator exponent is not linear in H and dt")
    out.append("/-- the propagator handed to the backend is propagators(1)[0] = first_step with\n"
               "    %s:%d  first_step = %s   and   dt := %s :\n"
               "    prop = expm((prop_coeff_re + i*prop_coeff_im) * H * self._dt) -/\n"
               "def prop_coeff_re : Rat := mkRat (%d) %d\ndef prop_coeff_im : Rat := mkRat (%d) %d\n"
               % ("oqupy/system.py", fs[0].lineno, _gl_norm(fs[0].value), _gl_norm(h[0].value.args[0]),
                  re.numerator, re.denominator, im.numerator, im.denominator))


def _gl_backend(src, out):
    # ---- initialise ----------------------------------------------------
    fn = src.function(_GL_TB, "TIBaseBackend.initialise")
    body = _gl_body(fn)
    if len(body) != 2 or not isinstance(body[0], ast.If) or _gl_norm(body[0].test) != "mps is not None" \
            or _gl_norm(body[1]) != "return (self._step, self.data[-1])":
        raise Untranslatable("TIBaseBackend.initialise: shape")
    st = [_gl_norm(s) for s in body[0].orelse]
    if len(st) != 10:
        raise Untranslatable("TIBaseBackend.initialise: %d statements in the build branch" % len(st))
    fixed = {0: "c_real, c_imag = (self._coefficients(0).real, self._coefficients(0).imag)",
             1: "o_1 = self._ops[0]",
             2: "o_2 = c_real * self._ops[1] - 1j * c_imag * self._ops[2]",
             5: "tensor = np.dot(self._influence_tensor(0), tensor.T)",
             6: "tensor = swapaxes(tensor.sum(0), 0, 2)",
             7: "self._mps = [tensor, self._cap]",
             8: "self.data.append(self.readout())"}
    for i, want in fixed.items():
        if st[i] != want:
            raise Untranslatable("TIBaseBackend.initialise: statement %d is %s" % (i, st[i][:140]))
    init_prop = _gl_one_of(st[3], "tensor = np.dot(self._initial_data, self._prop.T * exp(o_1 * o_2))",
                           "tensor = np.dot(self._initial_data, self._prop * exp(o_1 * o_2))",
                           "TIBaseBackend.initialise")
    init_data = _gl_one_of(st[4], "self.data.append(np.dot(tensor, self._prop.T))",
                           "self.data.append(np.dot(tensor, self._prop))", "TIBaseBackend.initialise")
    last = body[0].orelse[9]
    if not (isinstance(last, ast.Assign) and _gl_norm(last.targets[0]) == "self._step"
            and isinstance(last.value, ast.Constant) and isinstance(last.value.value, int)):
        raise Untranslatable("TIBaseBackend.initialise: step counter")
    out.append("/-- %s:%d  TIBaseBackend.initialise (network built from scratch):\n"
               "    %s\n    %s\n    then the first influence tensor is contracted in, data.append(self.readout()) "
               "and self._step = %d.\n    `true` = the propagator factor is `self._prop.T` -/\n"
               "def init_prop_T : Bool := %s\ndef init_data_T : Bool := %s\n"
               "def init_step : Int := %d\ndef init_appends : Nat := 2\n"
               % (_GL_TB, fn.lineno, st[3], st[4], last.value.value, _gl_bool(init_prop),
                  _gl_bool(init_data), last.value.value))
    # ---- _influence_tensor ---------------------------------------------
    fn = src.function(_GL_TB, "TIBaseBackend._influence_tensor")
    body = _gl_body(fn)
    st = [_gl_norm(s) for s in body]
    if len(body) != 6 or st[1] != "o_1 = self._ops[0]" or st[3] != "prop = self._prop" \
            or st[5] != "return tensor" or not isinstance(body[4], ast.If) or _gl_norm(body[4].test) != "k == 0":
        raise Untranslatable("TIBaseBackend._influence_tensor: shape")
    tr = FnTranslator({"k": "Int"})
    cidx = body[0]
    if not (isinstance(cidx, ast.Assign) and _gl_norm(cidx.targets[0]) == "c"
            and isinstance(cidx.value, ast.Call) and attr_chain(cidx.value.func) == ["self", "_coefficients"]
            and len(cidx.value.args) == 1):
        raise Untranslatable("_influence_tensor: c = self._coefficients(..)")
    term = tr.expr(cidx.value.args[0])
    out.append(emit_def("infl_coeff_index", tr, term[0], "Int", ["k"],
                        "%s:%d  _influence_tensor(k):  %s" % (_GL_TB, cidx.lineno, st[0])))
    o2 = body[2]
    if not (isinstance(o2, ast.Assign) and _gl_norm(o2.targets[0]) == "o_2"):
        raise Untranslatable("_influence_tensor: o_2")
    names = {"c.real": "cRe", "c.imag": "cIm", "c0.real": "cRe", "c0.imag": "cIm",
             "c_real": "cRe", "c_imag": "cIm",
             "self._ops[0]": "(ops0 %s)", "self._ops[1]": "(ops1 %s)", "self._ops[2]": "(ops2 %s)"}
    ve = _GLVec(names)
    o2_term = ve.tr(o2.value, "x")
    out.append("/-- %s:%d  %s   (entry x; c = the coefficient, cRe/cIm its parts) -/\n"
               "def infl_o2 %s (x : ℕ) : K :=\n  let _unused := (E, ops0)\n  %s\n"
               % (_GL_TB, o2.lineno, st[2], _GL_SIG, o2_term))
    zero = body[4].body
    zt = [_gl_norm(s) for s in zero]
    if len(zero) != 6 or zt[0] != "c0 = self._coefficients(0)":
        raise Untranslatable("_influence_tensor[k == 0]: shape")
    o02 = zero[1]
    if not (isinstance(o02, ast.Assign) and _gl_norm(o02.targets[0]) == "o0_2"):
        raise Untranslatable("_influence_tensor[k == 0]: o0_2")
    if ve.tr(o02.value, "x") != o2_term:
        raise Untranslatable("_influence_tensor[k == 0]: o0_2 is not built like o_2")
    # the same o_2 formula in initialise
    ini = src.function(_GL_TB, "TIBaseBackend.initialise")
    io2 = [s for s in ast.walk(ini) if isinstance(s, ast.Assign) and _gl_norm(s.targets[0]) == "o_2"]
    if len(io2) != 1 or ve.tr(io2[0].value, "x") != o2_term:
        raise Untranslatable("initialise: o_2 is not built like in _influence_tensor")
    ten = zero[2]
    if not (isinstance(ten, ast.Assign) and _gl_norm(ten.targets[0]) == "tensor"):
        raise Untranslatable("_influence_tensor[k == 0]: tensor")
    fac = []
    e = ten.value
    while isinstance(e, ast.BinOp) and isinstance(e.op, ast.Mult):
        fac.insert(0, e.right)
        e = e.left
    fac.insert(0, e)
    if len(fac) != 3:
        raise Untranslatable("_influence_tensor[k == 0]: tensor is not a product of three factors")
    pp = _gl_one_of(_gl_norm(fac[1]), "np.dot(prop, prop).T", "np.dot(prop, prop)",
                    "_influence_tensor[k == 0]")
    ve2 = _GLVec({"o_1": "(ops0 %s)", "o_2": "(o2 %s)", "o0_2": "(o2 %s)"})
    pair0 = ve2.tr(fac[0], None)
    selfy = ve2.tr(fac[2], "y")
    wiring0 = ["tensor = np.dot(kron(self._v_proj, self._h_proj), diag(tensor.flatten()))",
               "tensor = reshape(tensor, (self._v_dim, self._h_dim, self._dim, self._dim))",
               "tensor = moveaxis(swapaxes(tensor, 2, 3), 0, 2)"]
    if zt[3:] != wiring0:
        raise Untranslatable("_influence_tensor[k == 0]: index wiring changed: %r" % zt[3:])
    sig2 = ("{K : Type} [CommRing K] (E : K → K) (o2 ops0 : ℕ → K)")
    out.append("/-- %s:%d  %s\n    first factor, entry [x, y] (o2 = the vector `o_2` of the coefficient "
               "c = coefficients(k+1)) -/\ndef infl_pair0 %s (x y : ℕ) : K :=\n  %s\n"
               % (_GL_TB, ten.lineno, zt[2], sig2, pair0))
    out.append("/-- third factor, entry [y] (broadcast over the first index; o2 = the vector `o0_2` of "
               "coefficients(0)) -/\ndef infl_self %s (y : ℕ) : K :=\n  %s\n" % (sig2, selfy))
    out.append("/-- second factor: `np.dot(prop, prop).T` (true) or `np.dot(prop, prop)` -/\n"
               "def infl_pp_T : Bool := %s\n" % _gl_bool(pp))
    # initialise's own exp(o_1 * o_2)
    m = ast.parse("exp(o_1 * o_2)", mode="eval").body
    if _GLVec({"o_1": "(ops0 %s)", "o_2": "(o2 %s)"}).tr(m, "y") != selfy:
        raise Untranslatable("initialise: exp(o_1 * o_2) differs from the k == 0 self factor")
    rest = body[4].orelse
    rt = [_gl_norm(s) for s in rest]
    wiringk = ["tensor = reshape(tensor, (self._v_dim, self._h_dim, self._v_dim, self._h_dim))",
               "tensor = swapaxes(tensor, 0, 3)"]
    if len(rest) != 3 or rt[1:] != wiringk:
        raise Untranslatable("_influence_tensor[k > 0]: index wiring changed: %r" % rt)
    tk = rest[0]
    want = "tensor = diag(exp(kron(o_2[self._v_ind], o_1[self._h_ind])))"
    if rt[0] != want:
        raise Untranslatable("_influence_tensor[k > 0]: " + rt[0][:140])
    mk = ast.parse("exp(outer(o_2, o_1))", mode="eval").body
    out.append("/-- %s:%d  %s\n    entry [(v, h), (v, h)] with v, h running over the distinct values: "
               "x = v_ind[v], y = h_ind[h] -/\ndef infl_pairk %s (x y : ℕ) : K :=\n  %s\n"
               % (_GL_TB, tk.lineno, rt[0], sig2, ve2.tr(mk, None)))
    # ---- readout -------------------------------------------------------
    fn = src.function(_GL_TB, "TIBaseBackend.readout")
    st = [_gl_norm(s) for s in _gl_body(fn)]
    if len(st) != 3 or st[1] != "for m in reversed([s.sum(1) for s in self._mps[:-1]]): result = m @ result" \
            or st[2] != "return result":
        raise Untranslatable("TIBaseBackend.readout: shape %r" % st)
    ro = _gl_one_of(st[0], "result = self._prop.T", "result = self._prop", "TIBaseBackend.readout")
    out.append("/-- %s:%d  TIBaseBackend.readout:  %s ; %s -/\ndef readout_T : Bool := %s\n"
               % (_GL_TB, fn.lineno, st[0], st[1], _gl_bool(ro)))
    # ---- compute_step: one increment, one recorded state ---------------
    fn = src.function(_GL_TB, "TIBaseBackend.compute_step")
    st = [_gl_norm(s) for s in _gl_body(fn)]
    if st[-3:] != ["self._step += 1", "self.data.append(self.readout())",
                   "return (self._step, self.data[-1])"] \
            or sum(1 for s in ast.walk(fn) if isinstance(s, (ast.Assign, ast.AugAssign))
                   and "self._step" in _gl_norm(s.targets[0] if isinstance(s, ast.Assign) else s.target)) != 1 \
            or sum(1 for s in st if s.startswith("self.data.append(")) != 1:
        raise Untranslatable("TIBaseBackend.compute_step: tail %r" % st[-3:])
    out.append("/-- %s:%d  TIBaseBackend.compute_step ends in  self._step += 1 ; "
               "self.data.append(self.readout()) ; return (self._step, self.data[-1]) -/\n"
               "def step_increment : Int := 1\ndef step_appends : Nat := 1\n" % (_GL_TB, fn.lineno))


def _gl_compute(src, out):
    fn = src.function(_GL_TP, "GibbsTempo.compute")
    body = _gl_body(fn)
    guards = [s for s in body if isinstance(s, ast.If)
              and _gl_norm(s.test) == "self._backend_instance.step is None"]
    if len(guards) != 1 or guards[0].orelse:
        raise Untranslatable("GibbsTempo.compute: initialisation guard")
    g = guards[0].body
    gt = [_gl_norm(s) for s in g]
    if len(g) != 3 or gt[0] != "step, state = self._backend_instance.initialise()" \
            or gt[1] != "self._init_dynamics()" or not isinstance(g[2], ast.For) \
            or _gl_norm(g[2].target) != "(ii, state)" \
            or _gl_norm(g[2].iter) != "enumerate(self._backend_instance.data)" or len(g[2].body) != 1:
        raise Untranslatable("GibbsTempo.compute: initialisation block %r" % gt)

    def stored(stmt, label_var, where):
        if not (isinstance(stmt, ast.Expr) and isinstance(stmt.value, ast.Call)
                and attr_chain(stmt.value.func) == ["self", "_dynamics", "add"]
                and len(stmt.value.args) == 2 and not stmt.value.keywords):
            raise Untranslatable("%s: not self._dynamics.add(time, state)" % where)
        tcall, sarg = stmt.value.args
        if not (isinstance(tcall, ast.Call) and attr_chain(tcall.func) == ["self", "_time"]
                and len(tcall.args) == 1):
            raise Untranslatable("%s: label is not self._time(..)" % where)
        t = _gl_one_of(_gl_norm(sarg), "state.T", "state", where)
        tr = FnTranslator({label_var: "Int"})
        lab = tr.expr(tcall.args[0])
        if lab[1] != "Int":
            raise Untranslatable("%s: label index is not an integer expression" % where)
        return t, tr, lab[0], tcall

    t0, tr0, lab0, tc0 = stored(g[2].body[0], "ii", "GibbsTempo.compute (initial states)")
    out.append(emit_def("init_label_index", tr0, lab0, "Int", ["ii"],
                        "%s:%d  GibbsTempo.compute, first call:  for ii, state in enumerate(backend.data): %s"
                        % (_GL_TP, tc0.lineno, _gl_norm(g[2].body[0]))))
    out.append("/-- ... the stored array is `state.T` (true) or `state` -/\n"
               "def store_init_T : Bool := %s\n" % _gl_bool(t0))
    hits = src.assignment(fn, "num_step")
    if len(hits) != 1 or body.index(hits[0]) < body.index(guards[0]):
        raise Untranslatable("GibbsTempo.compute: num_step")
    tr = FnTranslator({"n_steps": "Int", "step": "Int"})
    ns = tr.expr(hits[0].value)
    if ns[1] != "Int":
        raise Untranslatable("GibbsTempo.compute: num_step is not an integer expression")
    out.append(emit_def("compute_num_step", tr, ns[0], "Int", ["n_steps", "step"],
                        "%s:%d  GibbsTempo.compute:  num_step = %s   (step = the backend's counter "
                        "after the initialisation guard)" % (_GL_TP, hits[0].lineno, _gl_norm(hits[0].value))))
    loops = [n for n in ast.walk(fn) if isinstance(n, ast.For) and _gl_norm(n.iter) == "range(num_step)"]
    if len(loops) != 1 or loops[0].orelse:
        raise Untranslatable("GibbsTempo.compute: `for i in range(num_step)` loop")
    lb = [s for s in loops[0].body
          if not (isinstance(s, ast.Expr) and isinstance(s.value, ast.Call)
                  and (attr_chain(s.value.func) or [""])[0] == "prog_bar")]
    if len(lb) != 2 or _gl_norm(lb[0]) != "step, state = self._backend_instance.compute_step()":
        raise Untranslatable("GibbsTempo.compute: loop body %r" % [_gl_norm(s) for s in lb])
    t1, tr1, lab1, tc1 = stored(lb[1], "step", "GibbsTempo.compute (loop)")
    out.append(emit_def("step_label_index", tr1, lab1, "Int", ["step"],
                        "%s:%d  GibbsTempo.compute, loop:  step, state = backend.compute_step(); %s"
                        % (_GL_TP, tc1.lineno, _gl_norm(lb[1]))))
    out.append("def store_step_T : Bool := %s\n" % _gl_bool(t1))
    if _gl_norm(body[-1]) != "return self._dynamics":
        raise Untranslatable("GibbsTempo.compute: return value")
    fn = src.function(_GL_TP, "GibbsTempo.get_state")
    st = [_gl_norm(s) for s in _gl_body(fn)]
    if st != ["state = self._dynamics.states[-1]", "state = state / state.trace()", "return state"]:
        raise Untranslatable("GibbsTempo.get_state: %r" % st)
    out.append("/-- %s:%d  GibbsTempo.get_state: the last state of the dynamics divided by its trace -/\n"
               "def get_state_normalises : Bool := true\n" % (_GL_TP, fn.lineno))


class _GLScalar:
    """scalar integrand expressions of CustomSD -> Lean over a field F"""
    expo = None        # Lean term of the local variable `expo`, once assigned

    def tr(self, e):
        if isinstance(e, ast.Name):
            if e.id in ("w", "tau"):
                return e.id
            if e.id == "expo" and self.expo is not None:
                return self.expo
            raise Untranslatable("name %s in a thermal integrand" % e.id)
        if isinstance(e, ast.Attribute):
            if _gl_norm(e) == "self.temperature":
                return "T"
            raise Untranslatable("attribute %s in a thermal integrand" % _gl_norm(e))
        if isinstance(e, ast.Constant):
            v = e.value
            if isinstance(v, complex) and v == 1j:
                return "iUnit"
            if isinstance(v, bool):
                raise Untranslatable("boolean in a thermal integrand")
            if isinstance(v, (int, float)) and v == int(v) and int(v) >= 0:
                return "(%d : F)" % int(v)
            raise Untranslatable("constant %r in a thermal integrand" % (v,))
        if isinstance(e, ast.UnaryOp) and isinstance(e.op, ast.USub):
            return "(-%s)" % self.tr(e.operand)
        if isinstance(e, ast.BinOp):
            if isinstance(e.op, ast.Pow):
                if isinstance(e.right, ast.Constant) and isinstance(e.right.value, int) \
                        and not isinstance(e.right.value, bool) and e.right.value >= 0:
                    return "(%s ^ %d)" % (self.tr(e.left), e.right.value)
                raise Untranslatable("power in a thermal integrand")
            sym = {ast.Add: "+", ast.Sub: "-", ast.Mult: "*", ast.Div: "/"}.get(type(e.op))
            if sym is None:
                raise Untranslatable("operator in a thermal integrand")
            return "(%s %s %s)" % (self.tr(e.left), sym, self.tr(e.right))
        if isinstance(e, ast.Call):
            ch = attr_chain(e.func)
            if ch == ["np", "exp"] and len(e.args) == 1 and not e.keywords:
                return "(E %s)" % self.tr(e.args[0])
            if ch == ["np", "expm1"] and len(e.args) == 1 and not e.keywords:
                # expm1(x) denotes exp(x) - 1 (evaluated without cancellation)
                return "((E %s) - (1 : F))" % self.tr(e.args[0])
            if ch == ["self", "_spectral_density"] and _gl_norm(e) == "self._spectral_density(w)":
                return "J"
        raise Untranslatable("thermal integrand: " + _gl_norm(e)[:120])


def _gl_thermal(src, out):
    """the finite-temperature integrands of CustomSD.eta_function / correlation: the full
    formula, the large-frequency fall-back and the quantity the guard tests"""
    rel = "oqupy/bath_correlations.py"
    sig = "{F : Type} [Field F] (E : F → F) (iUnit J w tau T : F)"
    for qual, pre, ret in (("CustomSD.eta_function", "eta", "return -integral"),
                           ("CustomSD.correlation", "corr", "return integral")):
        fn = src.function(rel, qual)
        body = _gl_body(fn)
        st = [_gl_norm(s) for s in body]
        if len(body) == 7 and st[2] == "def scaled_integrand(x): return self.cutoff * integrand(self.cutoff * x)" \
                and st[3] == "integral = _complex_integral(scaled_integrand, a=0.0, b=1.0, " \
                             "epsrel=epsrel, limit=subdiv_limit)" \
                and st[4] == "if self.cutoff_type != 'hard': integral += _complex_integral(" \
                             "scaled_integrand, a=1.0, b=np.inf, epsrel=epsrel, limit=subdiv_limit)":
            # the same integrals after the substitution x = w / cutoff (Props.C12.quadrature_variable);
            # normalise to the unsubstituted form checked below
            body = body[:2] + body[3:]
            st = st[:2] + ["integral = _complex_integral(integrand, a=0.0, b=self.cutoff, "
                           "epsrel=epsrel, limit=subdiv_limit)",
                           "if self.cutoff_type != 'hard': integral += _complex_integral(integrand, "
                           "a=self.cutoff, b=np.inf, epsrel=epsrel, limit=subdiv_limit)"] + st[5:]
        if len(body) != 6 or st[0] != "if matsubara: tau = -1j * tau" \
                or not isinstance(body[1], ast.If) or _gl_norm(body[1].test) != "self.temperature == 0.0" \
                or st[2] != "integral = _complex_integral(integrand, a=0.0, b=self.cutoff, " \
                            "epsrel=epsrel, limit=subdiv_limit)" \
                or st[3] != "if self.cutoff_type != 'hard': integral += _complex_integral(integrand, " \
                            "a=self.cutoff, b=np.inf, epsrel=epsrel, limit=subdiv_limit)" \
                or st[4] != "if matsubara: integral = integral.real" or st[5] != ret:
            raise Untranslatable("%s: unexpected shape" % qual)
        els = body[1].orelse
        if len(els) != 1 or not isinstance(els[0], ast.FunctionDef) or els[0].name != "integrand" \
                or [a.arg for a in els[0].args.args] != ["w"]:
            raise Untranslatable("%s: finite-temperature integrand" % qual)
        ib = [s for s in els[0].body if not (isinstance(s, ast.Expr) and isinstance(s.value, ast.Constant))]
        if len(ib) != 2 or not isinstance(ib[0], ast.If) or _gl_norm(ib[1]) != "return inte":
            raise Untranslatable("%s: integrand(w) is not `if guard: inte = .. else: inte = ..; return inte`" % qual)
        guard = ib[0].test
        if not (isinstance(guard, ast.Compare) and len(guard.ops) == 1 and isinstance(guard.ops[0], ast.Gt)
                and _gl_norm(guard.comparators[0]) == "np.finfo(float).eps"):
            raise Untranslatable("%s: guard %s" % (qual, _gl_norm(guard)))
        branches = []
        sc = _GLScalar()
        clamped = False
        for blk in (ib[0].body, ib[0].orelse):
            blk = list(blk)
            if blk is not ib[0].body and len(blk) == 3:
                # else:  expo = <e>; if expo.real < 0.0: expo = 1j * expo.imag; inte = .. np.exp(-expo) ..
                # (the middle statement only acts for imaginary times beyond 1/T, where the real part
                #  of the exponent is negative; the generated term is the one for Re(expo) >= 0)
                if not (isinstance(blk[0], ast.Assign) and _gl_norm(blk[0].targets[0]) == "expo"
                        and _gl_norm(blk[1]) == "if expo.real < 0.0: expo = 1j * expo.imag"):
                    raise Untranslatable("%s: fall-back branch %r" % (qual, [_gl_norm(x) for x in blk]))
                sc.expo = sc.tr(blk[0].value)
                clamped = True
                blk = blk[2:]
            if len(blk) != 1 or not isinstance(blk[0], ast.Assign) or _gl_norm(blk[0].targets[0]) != "inte":
                raise Untranslatable("%s: branch of the integrand" % qual)
            branches.append(blk[0])
        out.append("/-- %s:%d  %s, T > 0: the branch `%s` is taken while this exceeds machine epsilon -/\n"
                   "def %s_guard %s : F :=\n  let _unused := (iUnit, J, tau)\n  %s\n"
                   % (rel, ib[0].lineno, qual, _gl_norm(guard), pre, sig, sc.tr(guard.left)))
        out.append("/-- %s:%d  %s   (tau is `-1j * tau` for matsubara=True) -/\n"
                   "def %s_integrand_full %s : F :=\n  %s\n"
                   % (rel, branches[0].lineno, _gl_norm(branches[0]), pre, sig, sc.tr(branches[0].value)))
        fb = sc.tr(branches[1].value)
        sc.expo = None
        out.append("/-- %s:%d  else:  %s%s -/\ndef %s_integrand_fallback %s : F :=\n"
                   "  let _unused := (T)\n  %s\n"
                   % (rel, branches[1].lineno,
                      ("expo = %s ; (for Re(expo) < 0, i.e. imaginary times beyond 1/T, expo is replaced "
                       "by 1j*Im(expo) -- not part of this term) ; " % _gl_norm(ib[0].orelse[0].value))
                      if clamped else "", _gl_norm(branches[1]), pre, sig, fb))
        out.append("/-- the fall-back clamps the exponent for imaginary times beyond 1/T -/\n"
                   "def %s_fallback_clamped : Bool := %s\n" % (pre, _gl_bool(clamped)))
    out.append("/-- eta_function returns `-integral`, correlation `integral`; with matsubara=True the time "
               "argument is replaced by `-1j * tau` first and the real part is returned -/\n"
               "def eta_sign : Int := -1\n")


@fragment("GibbsLoop")
def frag_gibbsloop(src):
    out = []
    _gl_time(src, out)
    _gl_coeffs(src, out)
    _gl_prepare(src, out)
    _gl_backend(src, out)
    _gl_compute(src, out)
    _gl_thermal(src, out)
    return "\n".join(out)
# end of GibbsLoop


# ---------------------------------------------------------------------------
# TebdLayers  (C10):  site factors of SystemChain.get_nn_full_liouvillians, Trotter layer
# sequences of compute_tebd_propagator, executor selection / read and write sets of
# PtTebdBackend.apply_nn_gate_layer, import statements of pt_tebd_backend.py
# ---------------------------------------------------------------------------

TL_PREAMBLE = '''/-- coefficient of one summand of a full nearest-neighbour Liouvillian -/
inductive Coef where
  | factorL | factorR | one
  deriving DecidableEq, Repr

/-- the summands of `nn_full_liouvillian` (bond `i` joins sites `i` and `i+1`) -/
inductive FullTerm where
  | leftSite    -- np.kron(site_liouvillians[i], identity(hs_dims[i+1]**2))
  | rightSite   -- np.kron(identity(hs_dims[i]**2), site_liouvillians[i+1])
  | nnTerm      -- nn_liouvillians[i]
  deriving DecidableEq, Repr

/-- the two kinds of tensors of the augmented MPS held by the back-end:
    `gam k` = `self._gammas[k]`, `lam k` = `self._lambdas[k]` (the list WITH the leading
    boundary matrix, i.e. `lam (k+1)` sits between sites `k` and `k+1`) -/
inductive CellKind where
  | gam | lam
  deriving DecidableEq, Repr

/-- how `apply_nn_gate_layer` runs the gates of a layer -/
inductive ExecKind where
  | sequentialLoop          -- for gate in gates: read, compute, write
  | readAllMapWriteAll      -- read all; Executor.map(compute); write all in the order of the results
  deriving DecidableEq, Repr
'''


def _tl_norm(s):
    return " ".join(ast.unparse(s).split())


def _tl_body(fn):
    """statements of a function without docstring / asserts"""
    out = []
    for s in fn.body:
        if isinstance(s, ast.Expr) and isinstance(s.value, ast.Constant):
            continue
        if isinstance(s, ast.Assert):
            continue
        out.append(s)
    return out


def _tl_ratconst(node, where):
    """an int / float literal as an exact Lean rational"""
    if isinstance(node, ast.Constant) and isinstance(node.value, (int, float)) \
            and not isinstance(node.value, bool):
        p, q = (node.value, 1) if isinstance(node.value, int) else node.value.as_integer_ratio()
        return "(%d : Rat)" % p if q == 1 else "((%d : Rat) / %d)" % (p, q)
    raise Untranslatable("%s: expected a numeric literal, found %s" % (where, _tl_norm(node)))


def _tl_factor(node, where):
    """`c` or `c1 if <int comparison> else c2` with numeric literals"""
    if isinstance(node, ast.IfExp):
        tr = FnTranslator({"i": "Int", "len_self": "Int"})
        c = tr.expr(node.test)
        if c[1] != "Bool":
            raise Untranslatable(where + ": non-boolean test")
        for v in tr.free:
            if v not in ("i", "len_self"):
                raise Untranslatable("%s: reads %s" % (where, v))
        return "if %s then %s else %s" % (c[0], _tl_factor(node.body, where),
                                          _tl_factor(node.orelse, where))
    return _tl_ratconst(node, where)


def _tl_factors(src, out):
    rel = "oqupy/system.py"
    fn = src.function(rel, "SystemChain.get_nn_full_liouvillians")
    body = _tl_body(fn)
    if len(body) != 3 or _tl_norm(body[0]) != "nn_full_liouvillians = []" \
            or not isinstance(body[1], ast.For) or _tl_norm(body[2]) != "return nn_full_liouvillians":
        raise Untranslatable("get_nn_full_liouvillians: unexpected shape")
    loop = body[1]
    if _tl_norm(loop.target) != "i" or loop.orelse:
        raise Untranslatable("get_nn_full_liouvillians: loop header")
    it = loop.iter
    if not (isinstance(it, ast.Call) and _tl_norm(it.func) == "range" and len(it.args) == 1
            and not it.keywords):
        raise Untranslatable("get_nn_full_liouvillians: loop is not `for i in range(<stop>)`")
    tr = FnTranslator({"len_self": "Int"})
    stop = tr.expr(it.args[0])
    if stop[1] != "Int" or any(v != "len_self" for v in tr.free):
        raise Untranslatable("get_nn_full_liouvillians: range stop " + _tl_norm(it.args[0]))
    out.append("/-- %s:%d  SystemChain.get_nn_full_liouvillians:  for i in %s  (one full Liouvillian "
               "per bond `i`, joining sites `i` and `i+1`) -/\n"
               "def bond_range_stop (len_self : Int) : Int := %s\n"
               % (rel, loop.lineno, _tl_norm(it), stop[0]))
    assigns = {}
    last = None
    for s in loop.body:
        if isinstance(s, ast.Assign) and len(s.targets) == 1 and isinstance(s.targets[0], ast.Name):
            if s.targets[0].id in assigns:
                raise Untranslatable("get_nn_full_liouvillians: %s assigned twice" % s.targets[0].id)
            assigns[s.targets[0].id] = s
            last = s
        elif _tl_norm(s) == "nn_full_liouvillians.append(nn_full_liouvillian)" and s is loop.body[-1]:
            pass
        else:
            raise Untranslatable("get_nn_full_liouvillians: unexpected statement " + _tl_norm(s)[:100])
    want = {"liouv_l": "self._site_liouvillians[i]",
            "id_l": "np.identity(self._hs_dims[i] ** 2)",
            "liouv_r": "self._site_liouvillians[i + 1]",
            "id_r": "np.identity(self._hs_dims[i + 1] ** 2)",
            "liouv_nn": "self._nn_liouvillians[i]"}
    for k, v in want.items():
        if k not in assigns or _tl_norm(assigns[k].value) != v:
            raise Untranslatable("get_nn_full_liouvillians: %s is not %s" % (k, v))
    for f in ("factor_l", "factor_r"):
        if f not in assigns:
            raise Untranslatable("get_nn_full_liouvillians: no assignment to " + f)
        out.append("/-- %s:%d  %s = %s -/\ndef %s (i : Int) (len_self : Int) : Rat :=\n  %s\n"
                   % (rel, assigns[f].lineno, f, _tl_norm(assigns[f].value), f,
                      _tl_factor(assigns[f].value, f)))
    if set(assigns) != set(want) | {"factor_l", "factor_r", "nn_full_liouvillian"} \
            or last is not assigns["nn_full_liouvillian"]:
        raise Untranslatable("get_nn_full_liouvillians: assignments %r" % sorted(assigns))
    # the sum
    terms = []

    def flatten(e):
        if isinstance(e, ast.BinOp) and isinstance(e.op, ast.Add):
            flatten(e.left)
            flatten(e.right)
        else:
            terms.append(e)
    flatten(assigns["nn_full_liouvillian"].value)
    table = {"np.kron(liouv_l, id_r)": "leftSite", "np.kron(id_l, liouv_r)": "rightSite",
             "liouv_nn": "nnTerm"}
    coefs = {"factor_l": "factorL", "factor_r": "factorR"}
    res = []
    for t in terms:
        coef = "one"
        if isinstance(t, ast.BinOp) and isinstance(t.op, ast.Mult):
            c = _tl_norm(t.left)
            if c not in coefs:
                raise Untranslatable("get_nn_full_liouvillians: coefficient " + c)
            coef, t = coefs[c], t.right
        u = _tl_norm(t)
        if u not in table:
            raise Untranslatable("get_nn_full_liouvillians: summand " + u)
        res.append((coef, table[u]))
    out.append("/-- %s:%d  nn_full_liouvillian = %s -/\n"
               "def nn_full_terms : List (Coef × FullTerm) := [%s]\n"
               % (rel, assigns["nn_full_liouvillian"].lineno,
                  _tl_norm(assigns["nn_full_liouvillian"].value),
                  ", ".join("(.%s, .%s)" % r for r in res)))


def _tl_fraction(node, base, where):
    """`base`, `base / c`, `base * c`  ->  the exact rational multiplying `base`"""
    u = _tl_norm(node)
    if u == base:
        return "(1 : Rat)"
    if isinstance(node, ast.BinOp) and _tl_norm(node.left) == base:
        c = _tl_ratconst(node.right, where)
        if isinstance(node.op, ast.Div):
            return "((1 : Rat) / %s)" % c
        if isinstance(node.op, ast.Mult):
            return c
    raise Untranslatable("%s: time step expression %s" % (where, u))


def _tl_kw(call, where):
    if call.args:
        raise Untranslatable(where + ": positional arguments")
    return {k.arg: k.value for k in call.keywords}


def _tl_layers(src, out):
    rel = "oqupy/mps_mpo.py"
    # compute_nn_gate: the propagator is expm(dt * liouvillian)
    fn = src.function(rel, "compute_nn_gate")
    hits = src.assignment(fn, "propagator")
    if len(hits) != 1 or _tl_norm(hits[0].value) != "linalg.expm(dt * liouvillian)":
        raise Untranslatable("compute_nn_gate: propagator is not linalg.expm(dt * liouvillian)")
    ret = [s for s in ast.walk(fn) if isinstance(s, ast.Return)]
    if len(ret) != 1 or _tl_norm(ret[0].value) != "NnGate(site=site, tensors=(tensor_l, tensor_r))":
        raise Untranslatable("compute_nn_gate: return value")
    # NnGate acts on [site, site+1]
    init = src.function(rel, "NnGate.__init__")
    if [_tl_norm(s) for s in _tl_body(init)] != \
            ["super().__init__([site, site + 1], [tensors[0], tensors[1]])"]:
        raise Untranslatable("NnGate.__init__: sites are not [site, site+1]")
    out.append("/-- %s:%d  compute_nn_gate: propagator = linalg.expm(dt * liouvillian), returned as "
               "NnGate(site=site, ...) acting on the sites [site, site + 1] -/\n"
               "def nn_gate_right_site_offset : Nat := 1\n" % (rel, fn.lineno))
    # compute_trotter_layers
    fn = src.function(rel, "compute_trotter_layers")
    body = _tl_body(fn)
    texts = [_tl_norm(s) for s in body]
    if len(body) != 7 or texts[0] != "all_gates = []" or not isinstance(body[1], ast.For) \
            or texts[4] != "gate_layer_even = GateLayer(parallel=True, gates=gates_even)" \
            or texts[5] != "gate_layer_odd = GateLayer(parallel=True, gates=gates_odd)":
        raise Untranslatable("compute_trotter_layers: unexpected shape %r" % texts)
    loop = body[1]
    if _tl_norm(loop.target) != "(i, liouv)" or _tl_norm(loop.iter) != "enumerate(nn_full_liouvillians)" \
            or len(loop.body) != 2 or _tl_norm(loop.body[1]) != "all_gates.append(gate)" \
            or not isinstance(loop.body[0], ast.Assign) or _tl_norm(loop.body[0].targets[0]) != "gate" \
            or not isinstance(loop.body[0].value, ast.Call) \
            or _tl_norm(loop.body[0].value.func) != "compute_nn_gate":
        raise Untranslatable("compute_trotter_layers: gate loop")
    kwn = _tl_kw(loop.body[0].value, "compute_trotter_layers")
    kw = {k: _tl_norm(v) for k, v in kwn.items()}
    site_expr = kwn.get("site")
    kw.pop("site", None)
    if site_expr is None or kw != {"liouvillian": "liouv", "hs_dim_l": "hs_dims[i]",
                                   "hs_dim_r": "hs_dims[i + 1]", "dt": "dt", "epsrel": "epsrel"}:
        raise Untranslatable("compute_trotter_layers: compute_nn_gate arguments %r" % kw)
    trs = FnTranslator({"i": "Int"})
    st = trs.expr(site_expr)
    if st[1] != "Int" or any(v != "i" for v in trs.free):
        raise Untranslatable("compute_trotter_layers: site argument " + _tl_norm(site_expr))
    out.append("/-- %s:%d  compute_trotter_layers: the gate built from nn_full_liouvillians[i] (a fresh "
               "NnGate per loop iteration, appended at position i of the gate list) is given  site=%s -/\n"
               "def gate_site (i : Int) : Int := %s\n"
               % (rel, loop.body[0].lineno, _tl_norm(site_expr), st[0]))
    slices = {}
    for s, name in ((body[2], "gates_even"), (body[3], "gates_odd")):
        if not (isinstance(s, ast.Assign) and _tl_norm(s.targets[0]) == name
                and isinstance(s.value, ast.Subscript) and _tl_norm(s.value.value) == "all_gates"
                and isinstance(s.value.slice, ast.Slice) and s.value.slice.upper is None
                and isinstance(s.value.slice.lower, ast.Constant)
                and isinstance(s.value.slice.step, ast.Constant)
                and isinstance(s.value.slice.lower.value, int)
                and isinstance(s.value.slice.step.value, int)
                and s.value.slice.lower.value >= 0 and s.value.slice.step.value >= 1):
            raise Untranslatable("compute_trotter_layers: %s is not all_gates[a::b]" % name)
        slices[name] = (s.value.slice.lower.value, s.value.slice.step.value, _tl_norm(s.value))
    ret = body[6]
    if not isinstance(ret, ast.Return) or not isinstance(ret.value, (ast.List, ast.Tuple)):
        raise Untranslatable("compute_trotter_layers: return value")
    order = []
    for e in ret.value.elts:
        u = _tl_norm(e)
        if u not in ("gate_layer_even", "gate_layer_odd"):
            raise Untranslatable("compute_trotter_layers: returned element " + u)
        order.append(slices["gates_even" if u == "gate_layer_even" else "gates_odd"])
    out.append("/-- %s:%d  compute_trotter_layers: gate `i` (= bond `i`) is built from "
               "nn_full_liouvillians[i] with the common `dt`; the returned layers, in order, are the "
               "slices  %s  of the gate list, given as (start, step) -/\n"
               "def trotter_slices : List (Nat × Nat) := [%s]\n"
               % (rel, fn.lineno, ", ".join(o[2] for o in order),
                  ", ".join("(%d, %d)" % (o[0], o[1]) for o in order)))
    # compute_tebd_propagator
    fn = src.function(rel, "compute_tebd_propagator")
    body = _tl_body(fn)
    texts = [_tl_norm(s) for s in body]
    if len(body) != 4 or texts[0] != "nn_full_liouvillians = system_chain.get_nn_full_liouvillians()" \
            or texts[1] != "hs_dims = system_chain.hs_dims" or not isinstance(body[2], ast.If) \
            or texts[3] != "return propagator":
        raise Untranslatable("compute_tebd_propagator: unexpected shape")
    rows = []
    node = body[2]
    while True:
        t = node.test
        if not (isinstance(t, ast.Compare) and _tl_norm(t.left) == "order" and len(t.ops) == 1
                and isinstance(t.ops[0], ast.Eq) and isinstance(t.comparators[0], ast.Constant)
                and isinstance(t.comparators[0].value, int)):
            raise Untranslatable("compute_tebd_propagator: test " + _tl_norm(t))
        o = t.comparators[0].value
        if len(node.body) != 2:
            raise Untranslatable("compute_tebd_propagator: branch of order %d" % o)
        a, b = node.body
        if not (isinstance(a, ast.Assign) and _tl_norm(a.targets[0]) == "layers"
                and isinstance(a.value, ast.Call) and _tl_norm(a.value.func) == "compute_trotter_layers"):
            raise Untranslatable("compute_tebd_propagator: layers of order %d" % o)
        kw = _tl_kw(a.value, "compute_tebd_propagator")
        if sorted(kw) != ["dt", "epsrel", "hs_dims", "nn_full_liouvillians"] \
                or _tl_norm(kw["nn_full_liouvillians"]) != "nn_full_liouvillians" \
                or _tl_norm(kw["hs_dims"]) != "hs_dims" or _tl_norm(kw["epsrel"]) != "epsrel":
            raise Untranslatable("compute_tebd_propagator: compute_trotter_layers arguments")
        frac = _tl_fraction(kw["dt"], "time_step", "compute_tebd_propagator(order %d)" % o)
        if not (isinstance(b, ast.Assign) and _tl_norm(b.targets[0]) == "propagator"
                and isinstance(b.value, ast.Call) and _tl_norm(b.value.func) == "TebdPropagator"):
            raise Untranslatable("compute_tebd_propagator: propagator of order %d" % o)
        kw2 = _tl_kw(b.value, "TebdPropagator")
        if sorted(kw2) != ["gate_layers"] or not isinstance(kw2["gate_layers"], ast.List):
            raise Untranslatable("compute_tebd_propagator: gate_layers of order %d" % o)
        seq = []
        for e in kw2["gate_layers"].elts:
            if not (isinstance(e, ast.Subscript) and _tl_norm(e.value) == "layers"
                    and isinstance(e.slice, ast.Constant) and isinstance(e.slice.value, int)
                    and 0 <= e.slice.value < len(order)):
                raise Untranslatable("compute_tebd_propagator: gate layer " + _tl_norm(e))
            seq.append(e.slice.value)
        rows.append((o, frac, seq, _tl_norm(kw["dt"]), _tl_norm(kw2["gate_layers"])))
        if len(node.orelse) == 1 and isinstance(node.orelse[0], ast.If):
            node = node.orelse[0]
            continue
        if len(node.orelse) == 1 and isinstance(node.orelse[0], ast.Raise):
            break
        raise Untranslatable("compute_tebd_propagator: end of the order dispatch")
    out.append("/-- %s:%d  compute_tebd_propagator: per implemented `order` (anything else raises "
               "NotImplementedError): the fraction of `time_step` every gate is exponentiated with, and "
               "the sequence of layers (indices into `trotter_slices`) making up one propagator:  %s -/\n"
               "def order_table : List (Int × Rat × List Nat) :=\n  [%s]\n"
               % (rel, fn.lineno,
                  ";  ".join("order %d: dt=%s, gate_layers=%s" % (r[0], r[3], r[4]) for r in rows),
                  ", ".join("(%d, %s, [%s])" % (r[0], r[1], ", ".join(str(x) for x in r[2]))
                            for r in rows)))
    # PtTebd.initialize: the propagator is built for half a time step
    rel2 = "oqupy/pt_tebd.py"
    fn = src.function(rel2, "PtTebd.initialize")
    hits = src.assignment(fn, "self._tebd_propagator")
    if len(hits) != 1 or not isinstance(hits[0].value, ast.Call) \
            or _tl_norm(hits[0].value.func) != "compute_tebd_propagator":
        raise Untranslatable("PtTebd.initialize: propagator construction")
    kw = _tl_kw(hits[0].value, "PtTebd.initialize")
    if sorted(kw) != ["epsrel", "order", "system_chain", "time_step"] \
            or _tl_norm(kw["system_chain"]) != "self._system_chain" \
            or _tl_norm(kw["order"]) != "self._parameters.order" \
            or _tl_norm(kw["epsrel"]) != "self._parameters.epsrel":
        raise Untranslatable("PtTebd.initialize: compute_tebd_propagator arguments")
    out.append("/-- %s:%d  PtTebd.initialize: time_step = %s   (as a fraction of dt; the propagator is "
               "applied twice per step, see ControlCompose.tebdComputeStep) -/\n"
               "def initialize_fraction : Rat := %s\n"
               % (rel2, hits[0].lineno, _tl_norm(kw["time_step"]),
                  _tl_fraction(kw["time_step"], "self._parameters.dt", "PtTebd.initialize")))


def _tl_cell(node, where, site_r_is):
    """self._gammas[<e>] / self._lambdas[<e>]  ->  (kind, offset from site_l)"""
    if not (isinstance(node, ast.Subscript) and _tl_norm(node.value) in ("self._gammas", "self._lambdas")):
        raise Untranslatable("%s: %s is not a gamma / lambda of the augmented MPS" % (where, _tl_norm(node)))
    kind = "gam" if _tl_norm(node.value) == "self._gammas" else "lam"
    e = node.slice
    off = 0
    if isinstance(e, ast.BinOp) and isinstance(e.op, ast.Add) and isinstance(e.right, ast.Constant) \
            and isinstance(e.right.value, int) and e.right.value >= 0:
        off, e = e.right.value, e.left
    u = _tl_norm(e)
    if u == "site_l":
        pass
    elif u == "site_r":
        off += site_r_is
    else:
        raise Untranslatable("%s: index %s" % (where, _tl_norm(node.slice)))
    return kind, off


def _tl_backend(src, out):
    rel = "oqupy/backends/pt_tebd_backend.py"
    # __init__: self._parallel
    fn = src.function(rel, "PtTebdBackend.__init__")
    ifs = [s for s in fn.body if isinstance(s, ast.If) and _tl_norm(s.test) == "'parallel' in config"]
    if len(ifs) != 1 or [_tl_norm(s) for s in ifs[0].body] != ["self._parallel = config['parallel']"] \
            or [_tl_norm(s) for s in ifs[0].orelse] != ["self._parallel = None"]:
        raise Untranslatable("PtTebdBackend.__init__: selection of self._parallel")
    others = [n for n in ast.walk(fn) if isinstance(n, ast.Assign)
              and any(_tl_norm(t) == "self._parallel" for t in n.targets)]
    if len(others) != 2:
        raise Untranslatable("PtTebdBackend.__init__: self._parallel assigned elsewhere")
    # read set
    fn = src.function(rel, "PtTebdBackend._apply_nn_gate_get_data")
    body = _tl_body(fn)
    texts = [_tl_norm(s) for s in body]
    if texts[:4] != ["site_l = gate.sites[0]", "site_r = gate.sites[1]",
                     "gate_l = tn.Node(gate.tensors[0])", "gate_r = tn.Node(gate.tensors[1])"] \
            or texts[-1] != "return data":
        raise Untranslatable("_apply_nn_gate_get_data: unexpected shape %r" % texts[:4])
    copies = {}
    for s in body[4:-2]:
        if not (isinstance(s, ast.Assign) and isinstance(s.targets[0], ast.Name)
                and isinstance(s.value, ast.Call) and isinstance(s.value.func, ast.Attribute)
                and s.value.func.attr == "copy" and not s.value.args and not s.value.keywords):
            raise Untranslatable("_apply_nn_gate_get_data: %s is not `x = <tensor>.copy()`" % _tl_norm(s))
        copies[s.targets[0].id] = _tl_cell(s.value.func.value, "_apply_nn_gate_get_data", 1)
    d = body[-2]
    if not (isinstance(d, ast.Assign) and _tl_norm(d.targets[0]) == "data" and isinstance(d.value, ast.Tuple)):
        raise Untranslatable("_apply_nn_gate_get_data: data tuple")
    names = [_tl_norm(e) for e in d.value.elts]
    if names[:1] != ["site_l"] or names[-3:] != ["gate_l", "gate_r", "self._epsrel"] \
            or any(nm not in copies for nm in names[1:-3]) or sorted(names[1:-3]) != sorted(copies):
        raise Untranslatable("_apply_nn_gate_get_data: data tuple is %r" % names)
    reads = [copies[nm] for nm in names[1:-3]]
    out.append("/-- %s:%d  PtTebdBackend._apply_nn_gate_get_data: the tensors COPIED for the gate on the "
               "sites (site_l, site_l + 1), in the order they are passed on, as (kind, index - site_l):  %s -/\n"
               "def gate_reads : List (CellKind × Nat) := [%s]\n"
               % (rel, fn.lineno, ", ".join(names[1:-3]),
                  ", ".join("(.%s, %d)" % r for r in reads)))
    # the pure function
    fn = src.function(rel, "_apply_nn_gate")
    params = [a.arg for a in fn.args.args]
    if params != names[:1] + names[1:-3] + ["gate_l", "gate_r", "epsrel"]:
        raise Untranslatable("_apply_nn_gate: parameters %r do not match the data tuple %r" % (params, names))
    for n in ast.walk(fn):
        if isinstance(n, ast.Name) and n.id == "self":
            raise Untranslatable("_apply_nn_gate refers to self")
        if isinstance(n, (ast.Global, ast.Nonlocal)):
            raise Untranslatable("_apply_nn_gate uses global state")
    ret = [s for s in ast.walk(fn) if isinstance(s, ast.Return)]
    if len(ret) != 1 or _tl_norm(ret[0].value) != "(site_l, new_gam_l, new_lam_m, new_gam_r)":
        raise Untranslatable("_apply_nn_gate: return value")
    fn = src.function(rel, "apply_nn_gate")
    if [_tl_norm(s) for s in _tl_body(fn)] != ["return _apply_nn_gate(*input_data)"]:
        raise Untranslatable("apply_nn_gate (module level): unexpected shape")
    # write set
    fn = src.function(rel, "PtTebdBackend._apply_nn_gate_replace_gam_lam_gam")
    if [a.arg for a in fn.args.args] != ["self", "site_l", "new_gam_l", "new_lam_m", "new_gam_r"]:
        raise Untranslatable("_apply_nn_gate_replace_gam_lam_gam: parameters")
    body = _tl_body(fn)
    if _tl_norm(body[0]) != "site_r = site_l + 1":
        raise Untranslatable("_apply_nn_gate_replace_gam_lam_gam: site_r")
    writes = []
    for s in body[1:]:
        if isinstance(s, ast.Assign) and isinstance(s.targets[0], ast.Subscript) \
                and _tl_norm(s.targets[0].value) in ("self._gammas", "self._lambdas"):
            v = _tl_norm(s.value)
            if v not in ("new_gam_l", "new_lam_m", "new_gam_r"):
                raise Untranslatable("_apply_nn_gate_replace_gam_lam_gam: stores " + v)
            writes.append((_tl_cell(s.targets[0], "_apply_nn_gate_replace_gam_lam_gam", 1), v))
        elif isinstance(s, ast.Assign) and isinstance(s.targets[0], ast.Subscript) \
                and _tl_norm(s.targets[0].value) in ("self._phys_es", "self._pt_es",
                                                     "self._lam_gam_es", "self._gam_lam_es"):
            continue        # edge book-keeping
        elif isinstance(s, ast.Expr) and _tl_norm(s).startswith("tn.remove_node("):
            continue
        else:
            raise Untranslatable("_apply_nn_gate_replace_gam_lam_gam: statement " + _tl_norm(s)[:100])
    order = ["new_gam_l", "new_lam_m", "new_gam_r"]
    if sorted(w[1] for w in writes) != sorted(order):
        raise Untranslatable("_apply_nn_gate_replace_gam_lam_gam: stored values %r" % [w[1] for w in writes])
    writes.sort(key=lambda w: order.index(w[1]))
    out.append("/-- %s:%d  PtTebdBackend._apply_nn_gate_replace_gam_lam_gam(site_l, new_gam_l, new_lam_m, "
               "new_gam_r): the tensors REPLACED, in the order of the values returned by _apply_nn_gate, "
               "as (kind, index - site_l) -/\n"
               "def gate_writes : List (CellKind × Nat) := [%s]\n"
               % (rel, fn.lineno, ", ".join("(.%s, %d)" % w[0] for w in writes)))
    # the sequential path of one gate
    fn = src.function(rel, "PtTebdBackend.apply_nn_gate")
    if [_tl_norm(s) for s in _tl_body(fn)] != [
            "data = self._apply_nn_gate_get_data(gate)",
            "new_gam_lam_gam = _apply_nn_gate(*data)",
            "self._apply_nn_gate_replace_gam_lam_gam(*new_gam_lam_gam)"]:
        raise Untranslatable("PtTebdBackend.apply_nn_gate: unexpected shape")
    # the dispatch
    fn = src.function(rel, "PtTebdBackend.apply_nn_gate_layer")
    body = _tl_body(fn)
    if len(body) != 1 or not isinstance(body[0], ast.If) or _tl_norm(body[0].test) != "self._parallel is None":
        raise Untranslatable("apply_nn_gate_layer: unexpected shape")
    top = body[0]
    if [_tl_norm(s) for s in top.body] != ["for gate in gate_layer.gates: self.apply_nn_gate(gate)"]:
        raise Untranslatable("apply_nn_gate_layer: sequential branch")
    par = top.orelse
    ptexts = [_tl_norm(s) for s in par]
    if len(par) != 4 or ptexts[0] != "input_datas = []" \
            or ptexts[1] != "for gate in gate_layer.gates: input_datas.append(self._apply_nn_gate_get_data(gate))" \
            or not isinstance(par[2], ast.If) \
            or ptexts[3] != "for output_data in output_datas: self._apply_nn_gate_replace_gam_lam_gam(*output_data)":
        raise Untranslatable("apply_nn_gate_layer: parallel branch %r" % ptexts)
    rows, paths = [], []
    node = par[2]
    while True:
        t = node.test
        if not (isinstance(t, ast.Compare) and _tl_norm(t.left) == "self._parallel" and len(t.ops) == 1
                and isinstance(t.ops[0], ast.Eq) and isinstance(t.comparators[0], ast.Constant)
                and isinstance(t.comparators[0].value, str)):
            raise Untranslatable("apply_nn_gate_layer: test " + _tl_norm(t))
        key = t.comparators[0].value
        if len(node.body) != 1 or not isinstance(node.body[0], ast.With) or len(node.body[0].items) != 1:
            raise Untranslatable("apply_nn_gate_layer: branch %r" % key)
        w = node.body[0]
        ce = w.items[0].context_expr
        if not (isinstance(ce, ast.Call) and not ce.args and not ce.keywords and attr_chain(ce.func)
                and _tl_norm(w.items[0].optional_vars) == "executor"):
            raise Untranslatable("apply_nn_gate_layer: executor of %r" % key)
        path = attr_chain(ce.func)
        if len(path) < 2:
            raise Untranslatable("apply_nn_gate_layer: executor %s is not module.Class" % ".".join(path))
        if [_tl_norm(s) for s in w.body] != ["output_datas = executor.map(apply_nn_gate, input_datas)"]:
            raise Untranslatable("apply_nn_gate_layer: body of the with block of %r" % key)
        rows.append((key, ".".join(path[:-1]), path[-1]))
        if len(node.orelse) == 1 and isinstance(node.orelse[0], ast.If):
            node = node.orelse[0]
            continue
        if len(node.orelse) == 1 and isinstance(node.orelse[0], ast.Raise):
            break
        raise Untranslatable("apply_nn_gate_layer: end of the dispatch on self._parallel")
    out.append("/-- %s:%d  PtTebdBackend.apply_nn_gate_layer: `config` without the key 'parallel' "
               "(self._parallel is None) -/\n"
               "def exec_absent : ExecKind := .sequentialLoop\n" % (rel, fn.lineno))
    out.append("/-- %s:%d  PtTebdBackend.apply_nn_gate_layer, config['parallel'] == key: all "
               "_apply_nn_gate_get_data first (input order), then `with <executor class>() as executor: "
               "output_datas = executor.map(apply_nn_gate, input_datas)`, then every result is written "
               "back in the order `output_datas` yields them; any other value raises "
               "NotImplementedError.  Entries: (key, module the executor class is looked up in as an "
               "attribute chain, class name, kind) -/\n"
               "def exec_table : List (String × String × String × ExecKind) :=\n  [%s]\n"
               % (rel, par[2].lineno,
                  ", ".join('("%s", "%s", "%s", .readAllMapWriteAll)' % r for r in rows)))
    # import statements of the module
    tree = src.tree(rel)
    plain, aliased, froms = [], [], []
    for s in tree.body:
        if isinstance(s, ast.Import):
            for a in s.names:
                (aliased if a.asname else plain).append(a.name if not a.asname
                                                        else "%s as %s" % (a.name, a.asname))
        elif isinstance(s, ast.ImportFrom):
            for a in s.names:
                froms.append("%s%s:%s" % ("." * s.level, s.module or "", a.asname or a.name))
    for n in ast.walk(tree):
        if isinstance(n, (ast.Import, ast.ImportFrom)) and n not in tree.body:
            raise Untranslatable("pt_tebd_backend.py: import statement below module level")
    lst = lambda xs: "[" + ", ".join('"%s"' % x for x in xs) + "]"
    loaded = []
    for imp in plain:
        parts = imp.split(".")
        for k in range(len(parts)):
            m = ".".join(parts[:k + 1])
            if m not in loaded:
                loaded.append(m)
    out.append("/-- %s  module-level `import a.b.c` statements without `as` (each binds the name `a` "
               "and loads the modules a, a.b, a.b.c) -/\n"
               "def plain_imports : List String := %s\n" % (rel, lst(plain)))
    out.append("/-- the modules loaded by `plain_imports` (all dotted prefixes): an attribute chain "
               "`a.b.C` in this file resolves, independently of what other modules happen to have "
               "imported, iff `a.b` is listed here -/\n"
               "def loaded_modules : List String := %s\n" % lst(loaded))
    out.append("/-- %s  module-level `import x as y` and `from m import n` (as \"m:n\") statements -/\n"
               "def aliased_imports : List String := %s\n"
               "def from_imports : List String := %s\n" % (rel, lst(aliased), lst(froms)))


@fragment("TebdLayers")
def frag_tebdlayers(src):
    out = [TL_PREAMBLE]
    _tl_factors(src, out)
    _tl_layers(src, out)
    _tl_backend(src, out)
    return "\n".join(out)
# end of TebdLayers



# ---------------------------------------------------------------------------
# BathShapes  (C12):  oqupy/bath_correlations.py
#   * CustomSD.correlation_2d_integral : the difference formulas of the three shapes in
#     terms of eta_function (and, if present, of an integral of correlation()), the
#     `.real` post-processing for Matsubara
#   * CustomCorrelations.correlation_2d_integral : the integration region handed to dblquad
#   * CustomSD.correlation / CustomSD.eta_function : the integrands (zero temperature,
#     thermal, overflow guard), the tau rotation for Matsubara, integration ranges, sign
#   * the cutoff functions, the composition of the spectral density, PowerLawSD's j-function
#     and what PowerLawSD hands to CustomSD.__init__
# Grammar of the value expressions (sort K):  names, int/float/1j constants, + - * / unary -,
# `**`, np.exp, np.expm1, np.heaviside(x, 0), self._spectral_density(w) -> `J`,
# self.<attr> -> parameter.
# ---------------------------------------------------------------------------

BS_REL = "oqupy/bath_correlations.py"
EXTRA_IMPORTS["BathShapes"] = "import OQuPyVerif.Model.BathCorr\n"


def _bs_norm(n):
    return " ".join(ast.unparse(n).split())


def _bs_body(fn):
    body = list(fn.body)
    if body and isinstance(body[0], ast.Expr) and isinstance(body[0].value, ast.Constant) \
            and isinstance(body[0].value.value, str):
        body = body[1:]
    return body


class _BSVal:
    """value expressions (sort K) over `ExpFns K` + core arithmetic classes"""

    def __init__(self, names, attrs, sd_name="J"):
        self.names = dict(names)      # python local name -> lean term
        self.attrs = dict(attrs)      # self.<attr> -> lean parameter name
        self.sd_name = sd_name
        self.used = []

    def use(self, v):
        if v not in self.used:
            self.used.append(v)
        return v

    def lit(self, v, where):
        if isinstance(v, bool):
            raise Untranslatable("%s: boolean constant" % where)
        if isinstance(v, complex):
            if v == 1j:
                return "F.I"
            raise Untranslatable("%s: complex constant %r" % (where, v))
        if isinstance(v, int) or (isinstance(v, float) and v == int(v) and abs(v) < 2 ** 31):
            return "((%d : Int) : K)" % int(v)
        raise Untranslatable("%s: constant %r is not an integer-valued literal" % (where, v))

    def tr(self, e):
        where = _bs_norm(e)[:80]
        if isinstance(e, ast.Constant):
            return self.lit(e.value, where)
        if isinstance(e, ast.Name):
            if e.id in self.names:
                return self.use(self.names[e.id])
            raise Untranslatable("integrand: unknown name %s" % e.id)
        if isinstance(e, ast.Attribute):
            ch = attr_chain(e)
            if ch and len(ch) == 2 and ch[0] == "self" and ch[1] in self.attrs:
                return self.use(self.attrs[ch[1]])
            if ch and len(ch) == 2 and ch[0] in self.names and ch[1] in ("real", "imag"):
                return "(F.%s %s)" % ("re" if ch[1] == "real" else "im", self.use(self.names[ch[0]]))
            raise Untranslatable("integrand: attribute " + where)
        if isinstance(e, ast.UnaryOp) and isinstance(e.op, ast.USub):
            return "(-%s)" % self.tr(e.operand)
        if isinstance(e, ast.BinOp):
            if isinstance(e.op, ast.Pow):
                r = e.right
                if isinstance(r, ast.Constant) and isinstance(r.value, int) \
                        and not isinstance(r.value, bool) and r.value >= 0:
                    return "(F.npow %s %d)" % (self.tr(e.left), r.value)
                return "(F.pow %s %s)" % (self.tr(e.left), self.tr(e.right))
            sym = {ast.Add: "+", ast.Sub: "-", ast.Mult: "*", ast.Div: "/"}.get(type(e.op))
            if sym is None:
                raise Untranslatable("integrand: operator in " + where)
            return "(%s %s %s)" % (self.tr(e.left), sym, self.tr(e.right))
        if isinstance(e, ast.Call):
            ch = attr_chain(e.func)
            if e.keywords:
                raise Untranslatable("integrand: keyword call " + where)
            if ch == ["np", "exp"] and len(e.args) == 1:
                return "(F.exp %s)" % self.tr(e.args[0])
            if ch == ["np", "expm1"] and len(e.args) == 1:
                return "(F.expm1 %s)" % self.tr(e.args[0])
            if ch == ["np", "heaviside"] and len(e.args) == 2:
                return "(F.heaviside %s %s)" % (self.tr(e.args[0]), self.tr(e.args[1]))
            if ch == ["self", "_spectral_density"] and len(e.args) == 1 \
                    and isinstance(e.args[0], ast.Name) and e.args[0].id == "w":
                return self.use(self.sd_name)
        raise Untranslatable("integrand: cannot translate " + where)


    def cond(self, e):
        """a comparison of two real-valued quantities -> Bool term"""
        if isinstance(e, ast.Compare) and len(e.ops) == 1 and isinstance(e.ops[0], (ast.Lt, ast.Gt)):
            a, b = self.tr(e.left), self.tr(e.comparators[0])
            return "(F.lt %s %s)" % ((a, b) if isinstance(e.ops[0], ast.Lt) else (b, a))
        raise Untranslatable("integrand: condition " + _bs_norm(e))

    def run(self, stmts, where):
        """straight-line code:  x = e  |  if c: x = e   (no else); locals shadow by let-binding
        semantics (each name denotes its latest value)"""
        for st in stmts:
            if isinstance(st, ast.Assign) and len(st.targets) == 1 and isinstance(st.targets[0], ast.Name):
                self.names[st.targets[0].id] = self.tr(st.value)
            elif isinstance(st, ast.If) and not st.orelse:
                c = self.cond(st.test)
                for inner in st.body:
                    if not (isinstance(inner, ast.Assign) and len(inner.targets) == 1
                            and isinstance(inner.targets[0], ast.Name)
                            and inner.targets[0].id in self.names):
                        raise Untranslatable("%s: statement under `if`: %s" % (where, _bs_norm(inner)[:80]))
                    nm = inner.targets[0].id
                    self.names[nm] = "(if %s then %s else %s)" % (c, self.tr(inner.value), self.names[nm])
            else:
                raise Untranslatable("%s: statement %s" % (where, _bs_norm(st)[:80]))


BS_KSIG = "{K : Type} [Add K] [Sub K] [Mul K] [Div K] [Neg K] [IntCast K] (F : ExpFns K)"


def _bs_kdef(name, params, term, doc):
    sig = " ".join("(%s : K)" % p for p in params)
    return "/-- %s -/\ndef %s %s %s : K :=\n  %s\n" % (doc.replace("-/", "- /"), name, BS_KSIG, sig, term)


def _bs_integrands(src, out, qual, pre):
    """CustomSD.correlation / CustomSD.eta_function"""
    fn = src.function(BS_REL, qual)
    body = _bs_body(fn)
    args = [a.arg for a in fn.args.args]
    if args != ["self", "tau", "epsrel", "subdiv_limit", "matsubara"]:
        raise Untranslatable("%s: parameters %r" % (qual, args))
    if len(body) == 6:
        rot, disp, first, second, post, ret = body
        scaled = None
    elif len(body) == 7:
        rot, disp, scaled, first, second, post, ret = body
    else:
        raise Untranslatable("%s: expected 6 or 7 top-level statements, found %d" % (qual, len(body)))
    # 1. if matsubara: tau = -1j * tau
    if not (isinstance(rot, ast.If) and _bs_norm(rot.test) == "matsubara" and not rot.orelse
            and len(rot.body) == 1 and isinstance(rot.body[0], ast.Assign)
            and _bs_norm(rot.body[0].targets[0]) == "tau"):
        raise Untranslatable("%s: Matsubara rotation of tau" % qual)
    v = _BSVal({"tau": "tau"}, {})
    out.append("/-- %s:%d  %s:  `if matsubara: tau = %s` -/\n"
               "def %s_tau %s (matsubara : Bool) (tau : K) : K :=\n  if matsubara then %s else tau\n"
               % (BS_REL, rot.lineno, qual, _bs_norm(rot.body[0].value), pre, BS_KSIG,
                  v.tr(rot.body[0].value)))
    # 2. temperature dispatch
    if not (isinstance(disp, ast.If) and _bs_norm(disp.test) == "self.temperature == 0.0"):
        raise Untranslatable("%s: temperature dispatch is %s" % (qual, _bs_norm(disp)[:60]))
    zb = list(disp.body)
    if len(zb) != 2 or not (isinstance(zb[0], ast.Expr) and isinstance(zb[0].value, ast.Call)
                            and _bs_norm(zb[0].value.func) == "check_true"
                            and _bs_norm(zb[0].value.args[0]) == "matsubara is False"):
        raise Untranslatable("%s: zero-temperature branch does not start with "
                             "check_true(matsubara is False, ..)" % qual)

    def integrand_def(node):
        if not (isinstance(node, ast.FunctionDef) and node.name == "integrand"
                and [a.arg for a in node.args.args] == ["w"]):
            raise Untranslatable("%s: expected `def integrand(w)`" % qual)
        return [s for s in node.body
                if not (isinstance(s, ast.Expr) and isinstance(s.value, ast.Constant))]

    names = {"w": "w", "tau": "tau"}
    attrs = {"temperature": "T"}
    params = ["J", "w", "tau", "T"]
    zi = integrand_def(zb[1])
    if len(zi) != 1 or not isinstance(zi[0], ast.Return):
        raise Untranslatable("%s: zero-temperature integrand is not a single return" % qual)
    out.append(_bs_kdef(pre + "_zeroT", params, _BSVal(names, attrs).tr(zi[0].value),
                        "%s:%d  %s, temperature == 0.0 (J = self._spectral_density(w)):  return %s"
                        % (BS_REL, zi[0].lineno, qual, _bs_norm(zi[0].value))))
    if len(disp.orelse) != 1:
        raise Untranslatable("%s: thermal branch shape" % qual)
    ti = integrand_def(disp.orelse[0])
    if len(ti) != 2 or not isinstance(ti[0], ast.If) or _bs_norm(ti[1]) != "return inte":
        raise Untranslatable("%s: thermal integrand is not `if guard: inte = .. else: inte = ..; "
                             "return inte`" % qual)
    g = ti[0]
    if not (isinstance(g.test, ast.Compare) and len(g.test.ops) == 1
            and isinstance(g.test.ops[0], ast.Gt)
            and _bs_norm(g.test.comparators[0]) == "np.finfo(float).eps"):
        raise Untranslatable("%s: overflow guard is %s" % (qual, _bs_norm(g.test)))
    out.append(_bs_kdef(pre + "_guardQty", ["w", "T"], _BSVal(names, attrs).tr(g.test.left),
                        "%s:%d  %s: the thermal expression is used while  %s  (binary64 eps = 2^-52), "
                        "the guard expression otherwise" % (BS_REL, g.lineno, qual, _bs_norm(g.test))))
    for blk, tag in ((g.body, "thermal"), (g.orelse, "guard")):
        if not blk or not isinstance(blk[-1], ast.Assign) or _bs_norm(blk[-1].targets[0]) != "inte":
            raise Untranslatable("%s: %s branch does not end in `inte = ...`" % (qual, tag))
        v = _BSVal(names, attrs)
        v.run(blk, "%s (%s branch)" % (qual, tag))
        out.append(_bs_kdef("%s_%s" % (pre, tag), params, v.names["inte"],
                            "%s:%d  %s, %s branch:  %s"
                            % (BS_REL, blk[0].lineno, qual, tag, " ; ".join(_bs_norm(x) for x in blk))))
    # 3./4. integration ranges
    # two accepted forms: `integrand` over (0, cutoff) [+ (cutoff, inf)], or the substitution
    # x = w / cutoff: `scaled_integrand` over (0, 1) [+ (1, inf)]
    if scaled is None:
        fname, lo, hi = "integrand", "self.cutoff", "self.cutoff"
        out.append("/-- %s: the closure `integrand` itself is handed to the quadrature -/\n"
                   "def %s_scaledIntegrand {K : Type} [Mul K] (cutoff : K) (integrand : K → K) (x : K) : K :=\n"
                   "  integrand x\n"
                   "def %s_upper {K : Type} [IntCast K] (cutoff : K) : K := cutoff\n" % (qual, pre, pre))
    else:
        if not (isinstance(scaled, ast.FunctionDef) and scaled.name == "scaled_integrand"
                and [a.arg for a in scaled.args.args] == ["x"]):
            raise Untranslatable("%s: expected `def scaled_integrand(x)`" % qual)
        sb = _bs_body(scaled)
        if len(sb) != 1 or not isinstance(sb[0], ast.Return):
            raise Untranslatable("%s: scaled_integrand is not a single return" % qual)

        class _Sc(_BSVal):
            def tr(self, e):
                if isinstance(e, ast.Call) and _bs_norm(e.func) == "integrand" and len(e.args) == 1 \
                        and not e.keywords:
                    return "(integrand %s)" % self.tr(e.args[0])
                return super().tr(e)
        term = _Sc({"x": "x"}, {"cutoff": "cutoff"}).tr(sb[0].value)
        if "F." in term:
            raise Untranslatable("%s: scaled_integrand uses more than multiplication: %s" % (qual, term))
        fname, lo, hi = "scaled_integrand", "1.0", "1.0"
        out.append("/-- %s:%d  %s:  def scaled_integrand(x): return %s   -- this is what the quadrature "
                   "integrates, over (0, upper) and, unless the cutoff type is 'hard', (upper, inf) -/\n"
                   "def %s_scaledIntegrand {K : Type} [Mul K] (cutoff : K) (integrand : K → K) (x : K) : K :=\n"
                   "  %s\n"
                   "def %s_upper {K : Type} [IntCast K] (cutoff : K) : K := ((1 : Int) : K)\n"
                   % (BS_REL, scaled.lineno, qual, _bs_norm(sb[0].value), pre, term, pre))
    want1 = "integral = _complex_integral(%s, a=0.0, b=%s, epsrel=epsrel, limit=subdiv_limit)" % (fname, hi)
    want2 = ("if self.cutoff_type != 'hard': integral += _complex_integral(%s, a=%s, "
             "b=np.inf, epsrel=epsrel, limit=subdiv_limit)" % (fname, lo))
    if _bs_norm(first) != want1 or _bs_norm(second) != want2:
        raise Untranslatable("%s: integration ranges: %s ; %s" % (qual, _bs_norm(first), _bs_norm(second)))
    if _bs_norm(post) != "if matsubara: integral = integral.real":
        raise Untranslatable("%s: Matsubara post-processing is %s" % (qual, _bs_norm(post)))
    r = _bs_norm(ret)
    if r == "return integral":
        sign = 1
    elif r == "return -integral":
        sign = -1
    else:
        raise Untranslatable("%s: return statement %s" % (qual, r))
    out.append("/-- %s:%d  %s: the (scaled) integrand is integrated over (0, upper) and, unless the cutoff type "
               "is 'hard', also over (upper, inf); with `matsubara` the real part is taken; "
               "the result is returned with this sign -/\n"
               "def %s_sign : Int := %d\n"
               "def %s_tailUnlessHard : Bool := true\n"
               "def %s_realIfMatsubara : Bool := true\n"
               % (BS_REL, ret.lineno, qual, pre, sign, pre, pre))


def _bs_complex_integral(src, out):
    fn = src.function(BS_REL, "_complex_integral")
    body = _bs_body(fn)
    texts = [_bs_norm(s) for s in body]
    found = None
    for eps_txt, eps_lean in (("", "none"), (" epsabs=0.0,", "some 0")):
        want = ["re_int = integrate.quad(lambda x: np.real(integrand(x)), a=a, b=b,%s epsrel=epsrel, limit=limit)[0]" % eps_txt,
                "im_int = integrate.quad(lambda x: np.imag(integrand(x)), a=a, b=b,%s epsrel=epsrel, limit=limit)[0]" % eps_txt,
                "return re_int + 1j * im_int"]
        if texts == want:
            found = eps_lean
    if found is None:
        raise Untranslatable("_complex_integral: unexpected shape %r" % texts)
    out.append("/-- %s:%d  _complex_integral(f, a, b) = Q(re ∘ f) + 1j * Q(im ∘ f) with one real "
               "quadrature functional Q = integrate.quad(·, a, b, epsrel, limit)[0] -/\n"
               "def complexIntegral_splits_re_im : Bool := true\n"
               "/-- the absolute tolerance handed to quad: `none` = scipy's default (1.49e-8), "
               "`some 0` = purely relative tolerance -/\n"
               "def quadratureEpsabs : Option Rat := %s\n" % (BS_REL, fn.lineno, found))


def _bs_cutoffs(src, out):
    table = {}
    for fname in ("_hard_cutoff", "_exponential_cutoff", "_gaussian_cutoff"):
        fn = src.function(BS_REL, fname)
        if [a.arg for a in fn.args.args] != ["omega", "omega_c"]:
            raise Untranslatable("%s: parameters" % fname)
        body = _bs_body(fn)
        if len(body) != 1 or not isinstance(body[0], ast.Return):
            raise Untranslatable("%s: not a single return" % fname)
        v = _BSVal({"omega": "omega", "omega_c": "omega_c"}, {})
        lname = "cutoff" + fname[1:].split("_")[0].capitalize()
        out.append(_bs_kdef(lname, ["omega", "omega_c"], v.tr(body[0].value),
                            "%s:%d  %s:  return %s" % (BS_REL, fn.lineno, fname, _bs_norm(body[0].value))))
        table[fname] = lname
    # CUTOFF_DICT
    tree = src.tree(BS_REL)
    hits = [n for n in tree.body if isinstance(n, ast.Assign) and _bs_norm(n.targets[0]) == "CUTOFF_DICT"]
    if len(hits) != 1 or not isinstance(hits[0].value, ast.Dict):
        raise Untranslatable("CUTOFF_DICT: not a single dict literal")
    pairs = []
    for k, val in zip(hits[0].value.keys, hits[0].value.values):
        if not (isinstance(k, ast.Constant) and isinstance(k.value, str) and isinstance(val, ast.Name)
                and val.id in table):
            raise Untranslatable("CUTOFF_DICT entry " + _bs_norm(k))
        pairs.append((k.value, table[val.id]))
    if sorted(p[0] for p in pairs) != ["exponential", "gaussian", "hard"]:
        raise Untranslatable("CUTOFF_DICT keys %r" % [p[0] for p in pairs])
    arms = "\n".join('  | "%s" => some (%s F omega omega_c)' % p for p in pairs)
    out.append("/-- %s:%d  CUTOFF_DICT[cutoff_type](omega, omega_c); `none` = the type is rejected "
               "by CustomSD.__init__ -/\n"
               "def cutoffOf %s (cutoff_type : String) (omega omega_c : K) : Option K :=\n"
               "  match cutoff_type with\n%s\n  | _ => none\n" % (BS_REL, hits[0].lineno, BS_KSIG, arms))
    out.append("def cutoffTypes : List String := [%s]\n" % ", ".join('"%s"' % p[0] for p in pairs))


def _bs_method_or_none(src, qual):
    try:
        return src.function(BS_REL, qual)
    except Untranslatable:
        return None


def _bs_spectral_density(src, out):
    """two accepted source forms: the functions are stored by CustomSD.__init__ as lambdas, or
    they are methods of CustomSD; the bodies must be the same expressions"""
    fn = src.function(BS_REL, "CustomSD.__init__")
    got = {}
    for s in ast.walk(fn):
        if isinstance(s, ast.Assign) and len(s.targets) == 1:
            t = _bs_norm(s.targets[0])
            if t in ("self._cutoff_function", "self._spectral_density"):
                got[t] = _bs_norm(s.value)
    where = fn
    for name in ("_cutoff_function", "_spectral_density"):
        m = _bs_method_or_none(src, "CustomSD." + name)
        if m is not None:
            if "self." + name in got:
                raise Untranslatable("CustomSD.%s is both a method and assigned in __init__" % name)
            body = _bs_body(m)
            if [a.arg for a in m.args.args] != ["self", "omega"] or len(body) != 1 \
                    or not isinstance(body[0], ast.Return):
                raise Untranslatable("CustomSD.%s: not `def %s(self, omega): return ...`" % (name, name))
            got["self." + name] = "lambda omega: " + _bs_norm(body[0].value)
            where = m
    want = {"self._cutoff_function": "lambda omega: CUTOFF_DICT[self.cutoff_type](omega, self.cutoff)",
            "self._spectral_density": "lambda omega: self.j_function(omega) * self._cutoff_function(omega)"}
    if got != want:
        raise Untranslatable("CustomSD: spectral density composition %r" % got)
    out.append("/-- %s:%d  CustomSD:  _spectral_density(omega) = j_function(omega) * "
               "CUTOFF_DICT[cutoff_type](omega, cutoff) -/\n"
               "def spectralDensity %s (j : K → K) (cutoff_type : String) (cutoff : K) (omega : K) : Option K :=\n"
               "  (cutoffOf F cutoff_type omega cutoff).map (fun x => j omega * x)\n"
               % (BS_REL, where.lineno, BS_KSIG))
    fn2 = src.function(BS_REL, "CustomSD.spectral_density")
    if [_bs_norm(s) for s in _bs_body(fn2)] != ["return self._spectral_density(omega)"]:
        raise Untranslatable("CustomSD.spectral_density: unexpected body")


def _bs_powerlaw(src, out):
    """two accepted source forms: `j_function = lambda w: ...` handed to super().__init__, or a
    method `j_function(self, omega)` handed over as `self.j_function`"""
    fn = src.function(BS_REL, "PowerLawSD.__init__")
    stored = {}
    for s in ast.walk(fn):
        if isinstance(s, ast.Assign) and len(s.targets) == 1 and isinstance(s.targets[0], ast.Attribute):
            t = _bs_norm(s.targets[0])
            if t in ("self.alpha", "self.zeta", "self.cutoff"):
                stored[t] = _bs_norm(s.value)
    if stored != {"self.alpha": "tmp_alpha", "self.zeta": "tmp_zeta", "self.cutoff": "tmp_cutoff"}:
        raise Untranslatable("PowerLawSD.__init__: stored parameters %r" % stored)
    lam = [s for s in fn.body if isinstance(s, ast.Assign) and _bs_norm(s.targets[0]) == "j_function"]
    meth = _bs_method_or_none(src, "PowerLawSD.j_function")
    if len(lam) == 1 and meth is None:
        if not isinstance(lam[0].value, ast.Lambda) or [a.arg for a in lam[0].value.args.args] != ["w"]:
            raise Untranslatable("PowerLawSD.__init__: j_function is not `lambda w: ...`")
        var, body, line, first = "w", lam[0].value.body, lam[0].lineno, "j_function"
        text = _bs_norm(lam[0].value)
    elif not lam and meth is not None:
        mb = _bs_body(meth)
        if [a.arg for a in meth.args.args] != ["self", "omega"] or len(mb) != 1 \
                or not isinstance(mb[0], ast.Return):
            raise Untranslatable("PowerLawSD.j_function: not `def j_function(self, omega): return ...`")
        var, body, line, first = "omega", mb[0].value, meth.lineno, "self.j_function"
        text = "lambda omega: " + _bs_norm(mb[0].value)
    else:
        raise Untranslatable("PowerLawSD: j_function is neither a single lambda nor a method")
    # the closure may name the constructor argument or the stored float of a parameter -- both
    # denote the same number
    v = _BSVal({var: "w", "alpha": "alpha", "zeta": "zeta", "cutoff": "cutoff"},
               {"alpha": "alpha", "zeta": "zeta", "cutoff": "cutoff"})
    out.append(_bs_kdef("powerLawJ", ["alpha", "zeta", "cutoff", "w"], v.tr(body),
                        "%s:%d  PowerLawSD:  j_function = %s   (constructor argument and "
                        "stored float of the same parameter are identified)" % (BS_REL, line, text)))
    calls = [n for n in ast.walk(fn) if isinstance(n, ast.Call)
             and _bs_norm(n.func) == "super().__init__"]
    if len(calls) != 1:
        raise Untranslatable("PowerLawSD.__init__: super().__init__ call")
    c = calls[0]
    pos = [_bs_norm(a) for a in c.args]
    kw = {k.arg: _bs_norm(k.value) for k in c.keywords}
    if pos != [first] or kw != {"cutoff": "cutoff", "cutoff_type": "cutoff_type",
                                "temperature": "temperature", "name": "name",
                                "description": "description"}:
        raise Untranslatable("PowerLawSD.__init__: arguments of super().__init__: %r %r" % (pos, kw))
    cls = src.function(BS_REL, "PowerLawSD")
    if [_bs_norm(b) for b in cls.bases] != ["CustomSD"]:
        raise Untranslatable("PowerLawSD: base classes")
    over = sorted(n.name for n in cls.body if isinstance(n, ast.FunctionDef))
    bad = [m for m in over if m in ("correlation", "eta_function", "correlation_2d_integral",
                                    "spectral_density", "_spectral_density", "_cutoff_function")]
    if bad:
        raise Untranslatable("PowerLawSD overrides %r" % bad)
    out.append("/-- %s:%d  PowerLawSD(CustomSD) defines only %s; it calls\n"
               "    super().__init__(%s, cutoff=cutoff, cutoff_type=cutoff_type, "
               "temperature=temperature, ..): all of correlation / eta_function / "
               "correlation_2d_integral / spectral_density are CustomSD's, with these arguments -/\n"
               "def powerLawSD %s (alpha zeta cutoff : K) (cutoff_type : String) (omega : K) : Option K :=\n"
               "  spectralDensity F (powerLawJ F alpha zeta cutoff) cutoff_type cutoff omega\n"
               % (BS_REL, cls.lineno, ", ".join(over), first, BS_KSIG))


# --- the shapes ------------------------------------------------------------

BS_TSIG = ("{T K : Type} [Add T] [Sub T] [Zero T] [DecidableEq T] "
           "[Add K] [Sub K] [Mul K] [Neg K] [NatCast K]")
BS_SHAPE_PARAMS = ("(eta : T → K) (corrInt : T → T → K) (ι : T → K) (matsubara : Bool) "
                   "(delta time_1 time_2 : T)")


class _BSShape:
    """symbolic execution of one branch of CustomSD.correlation_2d_integral.
    sorts: 'T' times (delta, time_1, time_2, literal 0.0, + -), 'K' values."""

    def __init__(self):
        self.env = {}          # K-valued locals

    def time(self, e):
        if isinstance(e, ast.Name) and e.id in ("delta", "time_1", "time_2"):
            return e.id
        if isinstance(e, ast.Constant) and isinstance(e.value, float) and e.value == 0.0:
            return "(0 : T)"
        if isinstance(e, ast.BinOp) and isinstance(e.op, (ast.Add, ast.Sub)):
            return "(%s %s %s)" % (self.time(e.left), "+" if isinstance(e.op, ast.Add) else "-",
                                   self.time(e.right))
        raise Untranslatable("shape formula: time expression " + _bs_norm(e))

    def is_time(self, e):
        try:
            self.time(e)
            return not (isinstance(e, ast.Constant))
        except Untranslatable:
            return False

    def val(self, e):
        where = _bs_norm(e)[:90]
        if isinstance(e, ast.Name):
            if e.id in self.env:
                return self.env[e.id]
            if e.id in ("delta", "time_1", "time_2"):
                return "(ι %s)" % e.id
            raise Untranslatable("shape formula: name %s used before assignment" % e.id)
        if isinstance(e, ast.Constant):
            v = e.value
            if isinstance(v, (int, float)) and not isinstance(v, bool) and v == int(v) and 0 <= v < 2 ** 31:
                return "((%d : Nat) : K)" % int(v)
            raise Untranslatable("shape formula: constant %r" % (v,))
        if isinstance(e, ast.UnaryOp) and isinstance(e.op, ast.USub):
            return "(-%s)" % self.val(e.operand)
        if isinstance(e, ast.BinOp) and isinstance(e.op, (ast.Add, ast.Sub, ast.Mult)):
            sym = {ast.Add: "+", ast.Sub: "-", ast.Mult: "*"}[type(e.op)]
            return "(%s %s %s)" % (self.val(e.left), sym, self.val(e.right))
        if isinstance(e, ast.Call):
            f = _bs_norm(e.func)
            if f == "self.eta_function":
                if len(e.args) != 1 or len(e.keywords) != 1 or e.keywords[0].arg is not None \
                        or _bs_norm(e.keywords[0].value) != "kwargs":
                    raise Untranslatable("shape formula: eta_function call " + where)
                return "(eta %s)" % self.time(e.args[0])
            if f == "_complex_integral":
                kw = {k.arg: k.value for k in e.keywords}
                if len(e.args) != 1 or sorted(kw) != ["a", "b", "epsrel", "limit"] \
                        or _bs_norm(e.args[0]) != "lambda tau: self.correlation(tau, **kwargs)" \
                        or _bs_norm(kw["epsrel"]) != "epsrel" or _bs_norm(kw["limit"]) != "subdiv_limit":
                    raise Untranslatable("shape formula: _complex_integral call " + where)
                return "(corrInt %s %s)" % (self.time(kw["a"]), self.time(kw["b"]))
        raise Untranslatable("shape formula: cannot translate " + where)

    def cond(self, e):
        t = _bs_norm(e)
        if t == "matsubara":
            return "matsubara"
        if isinstance(e, ast.Compare) and len(e.ops) == 1 and isinstance(e.ops[0], (ast.NotEq, ast.Eq)):
            a, b = self.time(e.left), self.time(e.comparators[0])
            return "(decide (%s %s %s))" % (a, "≠" if isinstance(e.ops[0], ast.NotEq) else "=", b)
        raise Untranslatable("shape formula: condition " + t)

    def run(self, stmts):
        for s in stmts:
            if isinstance(s, ast.Assign) and len(s.targets) == 1 and isinstance(s.targets[0], ast.Name):
                self.env[s.targets[0].id] = self.val(s.value)
            elif isinstance(s, ast.If) and not s.orelse:
                c = self.cond(s.test)
                inner = _BSShape()
                inner.env = dict(self.env)
                inner.run(s.body)
                for k, v in inner.env.items():
                    if k not in self.env:
                        # a local of the branch only; keep it visible for later statements of the
                        # same branch (not after the `if`)
                        continue
                    if v != self.env[k]:
                        self.env[k] = "(if %s then %s else %s)" % (c, v, self.env[k])
            else:
                raise Untranslatable("shape formula: statement " + _bs_norm(s)[:90])


def _bs_shapes(src, out):
    qual = "CustomSD.correlation_2d_integral"
    fn = src.function(BS_REL, qual)
    args = [a.arg for a in fn.args.args]
    if args != ["self", "delta", "time_1", "time_2", "shape", "epsrel", "subdiv_limit", "matsubara"]:
        raise Untranslatable("%s: parameters %r" % (qual, args))
    body = _bs_body(fn)
    if len(body) != 4:
        raise Untranslatable("%s: expected 4 top-level statements, found %d" % (qual, len(body)))
    kw, disp, post, ret = body
    if _bs_norm(kw) != "kwargs = {'epsrel': epsrel, 'subdiv_limit': subdiv_limit, 'matsubara': matsubara}":
        raise Untranslatable("%s: kwargs = %s" % (qual, _bs_norm(kw)))
    names, node = [], disp
    lean_names = {"upper-triangle": "shapeTri", "square": "shapeSq", "rectangle": "shapeRect"}
    while True:
        if not (isinstance(node, ast.If) and isinstance(node.test, ast.Compare)
                and _bs_norm(node.test.left) == "shape" and len(node.test.ops) == 1
                and isinstance(node.test.ops[0], ast.Eq)
                and isinstance(node.test.comparators[0], ast.Constant)):
            raise Untranslatable("%s: shape dispatch is not an if/elif chain on `shape ==`" % qual)
        nm = node.test.comparators[0].value
        if nm not in lean_names or nm in names:
            raise Untranslatable("%s: unknown shape %r" % (qual, nm))
        names.append(nm)
        sh = _BSShape()
        sh.run(node.body)
        if "integral" not in sh.env:
            raise Untranslatable("%s[%s]: `integral` is not assigned" % (qual, nm))
        src_text = " ; ".join(_bs_norm(s) for s in node.body)
        out.append("/-- %s:%d  %s, shape == '%s':  %s\n"
                   "    (`eta t` = self.eta_function(t, **kwargs); `corrInt a b` = _complex_integral(lambda tau: "
                   "self.correlation(tau, **kwargs), a, b, ..); `ι` embeds a time into the values) -/\n"
                   "def %s %s %s : K :=\n  %s\n"
                   % (BS_REL, node.lineno, qual, nm, src_text.replace("-/", "- /"),
                      lean_names[nm], BS_TSIG, BS_SHAPE_PARAMS, sh.env["integral"]))
        if len(node.orelse) == 1 and isinstance(node.orelse[0], ast.If):
            node = node.orelse[0]
            continue
        if len(node.orelse) == 1 and isinstance(node.orelse[0], ast.Raise) \
                and _bs_norm(node.orelse[0].exc).startswith("NotImplementedError("):
            break
        raise Untranslatable("%s: the dispatch does not end in `raise NotImplementedError`" % qual)
    if sorted(names) != sorted(lean_names):
        raise Untranslatable("%s: shapes %r" % (qual, names))
    if _bs_norm(post) != "if matsubara: integral = integral.real" or _bs_norm(ret) != "return integral":
        raise Untranslatable("%s: post-processing %s ; %s" % (qual, _bs_norm(post), _bs_norm(ret)))
    out.append("/-- %s:%d  `if matsubara: integral = integral.real` then `return integral` -/\n"
               "def shapePost {K : Type} (re : K → K) (matsubara : Bool) (integral : K) : K :=\n"
               "  if matsubara then re integral else integral\n" % (BS_REL, post.lineno))
    out.append("/-- order of the `shape ==` tests; any other string raises NotImplementedError -/\n"
               "def shapeNames : List String := [%s]\n" % ", ".join('"%s"' % n for n in names))


def _bs_custom_region(src, out):
    """CustomCorrelations.correlation_2d_integral: what is handed to dblquad"""
    qual = "CustomCorrelations.correlation_2d_integral"
    fn = src.function(BS_REL, qual)
    body = _bs_body(fn)
    texts = [_bs_norm(s) for s in body]
    if len(body) != 8 \
            or texts[0] != "c_real = lambda y, x: np.real(self.correlation(x - y))" \
            or texts[1] != "c_imag = lambda y, x: np.imag(self.correlation(x - y))" \
            or not texts[2].startswith("if time_2 is None: time_2 = time_1 + delta else: assert shape == 'rectangle'") \
            or texts[7] != "return int_real + 1j * int_imag":
        raise Untranslatable("%s: unexpected shape %r" % (qual, [t[:60] for t in texts]))
    for s, part in ((body[5], "c_real"), (body[6], "c_imag")):
        want = ("integrate.dblquad(func=%s, a=time_1, b=time_2, gfun=lower_boundary[shape], "
                "hfun=upper_boundary[shape], epsrel=epsrel)[0]" % part)
        if _bs_norm(s.value) != want:
            raise Untranslatable("%s: dblquad call %s" % (qual, _bs_norm(s.value)))
    tables = {}
    for s in body[3:5]:
        nm = _bs_norm(s.targets[0])
        if nm not in ("lower_boundary", "upper_boundary") or not isinstance(s.value, ast.Dict):
            raise Untranslatable("%s: boundary tables" % qual)
        d = {}
        for k, v in zip(s.value.keys, s.value.values):
            if not (isinstance(k, ast.Constant) and isinstance(v, ast.Lambda)
                    and [a.arg for a in v.args.args] == ["x"]):
                raise Untranslatable("%s: boundary entry %s" % (qual, _bs_norm(k)))
            d[k.value] = v.body
        if sorted(d) != ["rectangle", "square", "upper-triangle"]:
            raise Untranslatable("%s: boundary shapes %r" % (qual, sorted(d)))
        tables[nm] = d

    def bound(e):
        if isinstance(e, ast.Constant) and isinstance(e.value, float) and e.value == 0.0:
            return "(0 : R)"
        if isinstance(e, ast.Name) and e.id in ("x", "delta", "time_1"):
            return e.id
        if isinstance(e, ast.BinOp) and isinstance(e.op, (ast.Add, ast.Sub)):
            return "(%s %s %s)" % (bound(e.left), "+" if isinstance(e.op, ast.Add) else "-", bound(e.right))
        raise Untranslatable("%s: boundary expression %s" % (qual, _bs_norm(e)))

    lean_names = {"upper-triangle": "Tri", "square": "Sq", "rectangle": "Rect"}
    out.append("/-- %s:%d  %s hands  C(x - y)  to dblquad with x from time_1 to time_2 "
               "(time_2 = time_1 + delta unless given, which is only allowed for 'rectangle') and y "
               "between these bounds -/\n" % (BS_REL, fn.lineno, qual))
    for nm, ln in lean_names.items():
        out.append("def regionLower%s {R : Type} [Add R] [Sub R] [Zero R] (delta time_1 x : R) : R :=\n  %s\n"
                   "def regionUpper%s {R : Type} [Add R] [Sub R] [Zero R] (delta time_1 x : R) : R :=\n  %s\n"
                   % (ln, bound(tables["lower_boundary"][nm]), ln, bound(tables["upper_boundary"][nm])))
    out.append("def regionDefaultTime2 {R : Type} [Add R] (delta time_1 : R) : R :=\n  (time_1 + delta)\n")


def _bs_const_value(e):
    """integer / rational value of a constant expression of oqupy/config.py:
    int or float literals, unary minus, + - * / and ** with an integer exponent"""
    from fractions import Fraction
    if isinstance(e, ast.Constant) and not isinstance(e.value, bool) and isinstance(e.value, (int, float)):
        return Fraction(e.value)
    if isinstance(e, ast.UnaryOp) and isinstance(e.op, ast.USub):
        return -_bs_const_value(e.operand)
    if isinstance(e, ast.BinOp):
        a, b = _bs_const_value(e.left), _bs_const_value(e.right)
        if isinstance(e.op, ast.Add):
            return a + b
        if isinstance(e.op, ast.Sub):
            return a - b
        if isinstance(e.op, ast.Mult):
            return a * b
        if isinstance(e.op, ast.Div) and b != 0:
            return a / b
        if isinstance(e.op, ast.Pow) and b.denominator == 1 and (a != 0 or b >= 0):
            return a ** int(b)
    raise Untranslatable("config constant: " + _bs_norm(e))


def _bs_config(src, out):
    """oqupy/config.py: INTEGRATE_EPSREL, SUBDIV_LIMIT, and that they are the default arguments
    of the quadrature entry points of bath_correlations.py"""
    rel = "oqupy/config.py"
    tree = src.tree(rel)
    vals = {}
    for n in tree.body:
        if isinstance(n, ast.Assign) and len(n.targets) == 1 and isinstance(n.targets[0], ast.Name) \
                and n.targets[0].id in ("INTEGRATE_EPSREL", "SUBDIV_LIMIT"):
            if n.targets[0].id in vals:
                raise Untranslatable("%s assigned twice in %s" % (n.targets[0].id, rel))
            vals[n.targets[0].id] = (_bs_const_value(n.value), n.lineno, _bs_norm(n.value))
    if sorted(vals) != ["INTEGRATE_EPSREL", "SUBDIV_LIMIT"]:
        raise Untranslatable("%s: INTEGRATE_EPSREL / SUBDIV_LIMIT not found" % rel)
    eps, lim = vals["INTEGRATE_EPSREL"], vals["SUBDIV_LIMIT"]
    if lim[0].denominator != 1 or lim[0] < 0:
        raise Untranslatable("SUBDIV_LIMIT is not a natural number: " + lim[2])
    out.append("/-- %s:%d  INTEGRATE_EPSREL = %s -/\ndef integrateEpsrel : Rat := mkRat (%d) %d\n"
               % (rel, eps[1], eps[2], eps[0].numerator, eps[0].denominator))
    out.append("/-- %s:%d  SUBDIV_LIMIT = %s -/\ndef subdivLimit : Nat := %d\n"
               % (rel, lim[1], lim[2], int(lim[0])))
    # the defaults of the entry points
    tree_bc = src.tree(BS_REL)
    imp = [n for n in tree_bc.body if isinstance(n, ast.ImportFrom) and n.module == "oqupy.config"]
    names = sorted(a.name for n in imp for a in n.names if a.asname is None)
    if "INTEGRATE_EPSREL" not in names or "SUBDIV_LIMIT" not in names:
        raise Untranslatable("bath_correlations.py does not import INTEGRATE_EPSREL, SUBDIV_LIMIT "
                             "from oqupy.config")
    want = {"epsrel": "INTEGRATE_EPSREL", "subdiv_limit": "SUBDIV_LIMIT", "limit": "SUBDIV_LIMIT"}
    checked = []
    for qual in ("_complex_integral", "CustomSD.correlation", "CustomSD.eta_function",
                 "CustomSD.correlation_2d_integral", "CustomCorrelations.correlation_2d_integral"):
        fn = src.function(BS_REL, qual)
        args = fn.args.args
        defaults = [None] * (len(args) - len(fn.args.defaults)) + list(fn.args.defaults)
        for a, d in zip(args, defaults):
            if a.arg in want:
                if d is None or _bs_norm(d) != want[a.arg]:
                    raise Untranslatable("%s: default of `%s` is %s, expected %s"
                                         % (qual, a.arg, None if d is None else _bs_norm(d), want[a.arg]))
                checked.append("%s(%s)" % (qual, a.arg))
    out.append("/-- the default `epsrel` / `subdiv_limit` (`limit`) arguments of %s are the two "
               "constants above -/\ndef quadratureDefaultsAreConfig : Bool := true\n"
               % ", ".join(checked))


def _bs_memo(src, out):
    """the memoisation of eta_function / CustomCorrelations.correlation_2d_integral must hand the
    call arguments to the wrapped function unchanged.  Accepted: functools.lru_cache applied
    directly, or the decorator `_cached_on_parameters` of the shape
        @lru_cache(..) def cached(self, parameters, *args, **kwargs): return method(self, *args, **kwargs)
        @wraps(method) def wrapper(self, *args, **kwargs): return cached(self, self._parameters(), *args, **kwargs)
        return wrapper"""
    decos = {}
    for qual in ("CustomSD.eta_function", "CustomCorrelations.correlation_2d_integral"):
        fn = src.function(BS_REL, qual)
        ds = [_bs_norm(d) for d in fn.decorator_list]
        if len(ds) != 1:
            raise Untranslatable("%s: expected exactly one decorator, found %r" % (qual, ds))
        decos[qual] = ds[0]
    kinds = set()
    for qual, d in decos.items():
        if d.startswith("lru_cache("):
            kinds.add("lru_cache")
        elif d == "_cached_on_parameters":
            kinds.add("cached_on_parameters")
        else:
            raise Untranslatable("%s: unknown memo decorator %s" % (qual, d))
    line = 0
    if "cached_on_parameters" in kinds:
        fn = src.function(BS_REL, "_cached_on_parameters")
        line = fn.lineno
        if [a.arg for a in fn.args.args] != ["method"]:
            raise Untranslatable("_cached_on_parameters: parameters")
        body = _bs_body(fn)
        if len(body) != 3 or not isinstance(body[0], ast.FunctionDef) \
                or not isinstance(body[1], ast.FunctionDef) or _bs_norm(body[2]) != "return wrapper":
            raise Untranslatable("_cached_on_parameters: expected `def cached`, `def wrapper`, "
                                 "`return wrapper`")
        cached, wrapper = body[0], body[1]

        def sig(f):
            a = f.args
            return ([x.arg for x in a.args], a.vararg.arg if a.vararg else None,
                    a.kwarg.arg if a.kwarg else None, len(a.defaults), len(a.kwonlyargs))
        if cached.name != "cached" or sig(cached) != (["self", "parameters"], "args", "kwargs", 0, 0) \
                or [_bs_norm(x) for x in _bs_body(cached)] != ["return method(self, *args, **kwargs)"] \
                or len(cached.decorator_list) != 1 \
                or not _bs_norm(cached.decorator_list[0]).startswith("lru_cache("):
            raise Untranslatable("_cached_on_parameters: `cached` is not "
                                 "`@lru_cache(..) def cached(self, parameters, *args, **kwargs): "
                                 "return method(self, *args, **kwargs)`")
        if wrapper.name != "wrapper" or sig(wrapper) != (["self"], "args", "kwargs", 0, 0) \
                or [_bs_norm(x) for x in _bs_body(wrapper)] != \
                ["return cached(self, self._parameters(), *args, **kwargs)"] \
                or [_bs_norm(d) for d in wrapper.decorator_list] != ["wraps(method)"]:
            raise Untranslatable("_cached_on_parameters: `wrapper` does not pass its arguments on "
                                 "unchanged: %r" % [_bs_norm(x) for x in _bs_body(wrapper)])
    out.append("/-- %s:%d  memoisation of eta_function / CustomCorrelations.correlation_2d_integral "
               "(%s): the wrapped function is called with exactly the arguments of the call, the "
               "cache key is (object, current parameters, arguments) -/\n"
               "def memoPassesArgumentsUnchanged : Bool := true\n"
               % (BS_REL, line, ", ".join(sorted(kinds))))


@fragment("BathShapes")
def frag_bathshapes(src):
    out = ["open OQuPyVerif.BathCorr\n"]
    _bs_config(src, out)
    _bs_memo(src, out)
    _bs_shapes(src, out)
    _bs_custom_region(src, out)
    _bs_complex_integral(src, out)
    _bs_integrands(src, out, "CustomSD.correlation", "corr")
    _bs_integrands(src, out, "CustomSD.eta_function", "eta")
    _bs_cutoffs(src, out)
    _bs_spectral_density(src, out)
    _bs_powerlaw(src, out)
    return "\n".join(out)
# end of BathShapes


# ---------------------------------------------------------------------------
# MpoWiring  (C03): which leg of which tensor is joined to which in the contraction of
# process tensors by compute_dynamics, in get_mpo_tensor and in compute_caps
# ---------------------------------------------------------------------------

MW_PREAMBLE = '''/-- roles of the four axes of an MPO tensor when it is applied to the propagated node -/
structure MpoAxes where
  bondIn : Nat
  bondOut : Nat
  sysIn : Nat
  sysOut : Nat
  deriving DecidableEq, Repr

/-- the vector that closes a leg in `compute_caps`:  the cap computed before (`lastCap`),
    `_trace` (identity/sqrt(d), flattened), `_trace_square` (`_trace**2`), `_trace_in`
    (`_trace @ transform_in`), `_trace_out` (`transform_out @ _trace`), or the elementwise
    product `_trace_in * _trace_out` -/
inductive Closer where
  | lastCap | trace | traceSquare | traceIn | traceOut | traceInTimesOut
  deriving DecidableEq, Repr

/-- where `compute_caps` takes the tensor of a step from:  the stored tensor (`stored`, rank 3 or 4,
    process-tensor basis) or `get_mpo_tensor(step)` (`transformed`: rank 4, system basis) -/
inductive CapTensor where
  | stored | transformed
  deriving DecidableEq, Repr

/-- one `compute_caps`:  per rank of the tensor, the (axis, closing vector) pairs in statement order;
    `rank3 = none`: no separate branch for rank 3 -/
structure CapWiring where
  tensor : CapTensor
  rank3 : Option (List (Nat × Closer))
  rank4 : List (Nat × Closer)
  /-- the cap behind the last tensor is `[1.0]` -/
  lastIsOne : Bool
  /-- the caps are produced for `step = length-1, ..., 0` in this order, each from the previous one -/
  backwards : Bool
  deriving DecidableEq, Repr

/-- memoisation inside a `get_*` method:  `cached` — the method writes an attribute of the object
    (returns what it stored there for the step, if anything, else computes, stores and returns);
    `invalidatedBySet` — the corresponding `set_*` method removes / replaces that entry -/
structure CacheWiring where
  cached : Bool
  invalidatedBySet : Bool
  deriving DecidableEq, Repr

/-- one `get_mpo_tensor`:  `create_delta(tensor, deltaScramble)` when the stored tensor has rank
    `deltaRank`;  `transform_in`:  axis `inAxis` of the tensor is contracted with axis `inMatAxis` of
    `transform_in` and the new axis is put at `inAxis` again;  `transform_out`: axis `outAxis` of the
    tensor with axis `outMatAxis` of `transform_out`, new axis last;  in this order;  each only when
    the transform is not None;  `deltaWhenUntransformed`: the delta is also inserted when the caller
    passes `transformed=False` -/
structure GetMpoWiring where
  deltaRank : Nat
  deltaScramble : List Nat
  deltaWhenUntransformed : Bool
  inAxis : Int
  inMatAxis : Nat
  outAxis : Int
  outMatAxis : Nat
  inBeforeOut : Bool
  deriving DecidableEq, Repr
'''


def _mw_norm(s):
    return " ".join(ast.unparse(s).split())


def _mw_body(fn):
    return _cc_strip(fn.body)


def _mw_axis(text, prefix, where):
    if not (text.startswith(prefix + "[") and text.endswith("]")):
        raise Untranslatable("%s: expected %s[<axis>], found %s" % (where, prefix, text))
    try:
        return int(text[len(prefix) + 1:-1])
    except ValueError:
        raise Untranslatable("%s: axis in %s is not an integer constant" % (where, text))


def _mw_apply_pt_mpos(src, out):
    rel = "oqupy/system_dynamics.py"
    fn = src.function(rel, "_apply_pt_mpos")
    params = [a.arg for a in fn.args.args]
    body = _mw_body(fn)
    texts = [_mw_norm(s) for s in body]
    if not texts or texts[-1] != "return (current_node, current_edges)":
        raise Untranslatable("_apply_pt_mpos: does not end in `return current_node, current_edges`")
    body, texts = body[:-1], texts[:-1]
    if params == ["current_node", "current_edges", "pt_mpos"]:
        if len(body) != 1:
            raise Untranslatable("_apply_pt_mpos: expected a single loop, found %r" % texts)
        loop = body[0]
        it = "enumerate(pt_mpos)"
    elif params == ["current_node", "current_edges", "pt_mpos", "reverse"]:
        # optional reversed visiting order; the default (what compute_dynamics uses) must be list order
        d = fn.args.defaults
        if len(d) != 1 or not isinstance(d[0], ast.Constant) or d[0].value is not False:
            raise Untranslatable("_apply_pt_mpos: `reverse` must default to False")
        if texts and texts[-1] == "if reverse: current_node.reorder_edges(current_edges)":
            body, texts = body[:-1], texts[:-1]
        if len(body) != 3 or not isinstance(body[0], ast.Assign) or len(body[0].targets) != 1 \
                or not isinstance(body[0].targets[0], ast.Name) \
                or _mw_norm(body[0].value) != "list(enumerate(pt_mpos))":
            raise Untranslatable("_apply_pt_mpos: expected `<v> = list(enumerate(pt_mpos))`")
        it = body[0].targets[0].id
        if texts[1] != "if reverse: %s.reverse()" % it:
            raise Untranslatable("_apply_pt_mpos: expected `if reverse: %s.reverse()`" % it)
        loop = body[2]
    else:
        raise Untranslatable("_apply_pt_mpos: parameters %r" % params)
    if not (isinstance(loop, ast.For) and _mw_norm(loop.target) == "(i, pt_mpo)"
            and _mw_norm(loop.iter) == it and not loop.orelse):
        raise Untranslatable("_apply_pt_mpos: loop header")
    lb = [_mw_norm(s) for s in _cc_strip(loop.body)]
    skips_none = bool(lb) and lb[0] == "if pt_mpo is None: continue"
    if skips_none:
        lb = lb[1:]
    if len(lb) != 8 or lb[0] != "pt_mpo_node = tn.Node(pt_mpo)":
        raise Untranslatable("_apply_pt_mpos: loop body %r" % lb)
    lb = lb[1:]
    want = {4: "current_node = current_node @ pt_mpo_node", 5: "current_edges[i] = new_bond_edge",
            6: "current_edges[-1] = new_sys_edge"}
    for k, w in want.items():
        if lb[k] != w:
            raise Untranslatable("_apply_pt_mpos: statement %r, expected %r" % (lb[k], w))
    pre = ["new_bond_edge = ", "new_sys_edge = ", "current_edges[i] ^ ", "current_edges[-1] ^ "]
    ax = []
    for k in range(4):
        if not lb[k].startswith(pre[k]):
            raise Untranslatable("_apply_pt_mpos: statement %r, expected %r..." % (lb[k], pre[k]))
        ax.append(_mw_axis(lb[k][len(pre[k]):], "pt_mpo_node", "_apply_pt_mpos"))
    bond_out, sys_out, bond_in, sys_in = ax
    if sorted(ax) != [0, 1, 2, 3]:
        raise Untranslatable("_apply_pt_mpos: the four axes are not a permutation of 0..3")
    out.append("/-- %s:%d  _apply_pt_mpos: for i, pt_mpo in enumerate(pt_mpos): bond edge `i` is joined to\n"
               "    axis `bondIn`, the system edge to axis `sysIn`; axes `bondOut` / `sysOut` become bond edge\n"
               "    `i` / the system edge.  The environments are visited in list order. -/\n"
               "def applyAxes : MpoAxes := { bondIn := %d, bondOut := %d, sysIn := %d, sysOut := %d }\n"
               % (rel, fn.lineno, bond_in, bond_out, sys_in, sys_out))
    out.append("/-- an entry `None` of the MPO list (TrivialProcessTensor) is skipped -/\n"
               "def applySkipsNone : Bool := %s\n" % ("true" if skips_none else "false"))


def _mw_apply_caps(src, out):
    rel = "oqupy/system_dynamics.py"
    fn = src.function(rel, "_apply_caps")
    if [a.arg for a in fn.args.args] != ["current_node", "current_edges", "caps"]:
        raise Untranslatable("_apply_caps: parameters")
    body = _mw_body(fn)
    texts = [_mw_norm(s) for s in body]
    if len(body) != 4 or texts[0] != "(node_dict, edge_dict) = tn.copy([current_node])" \
            and texts[0] != "node_dict, edge_dict = tn.copy([current_node])":
        raise Untranslatable("_apply_caps: unexpected shape %r" % texts)
    loop = body[1]
    if not (isinstance(loop, ast.For) and _mw_norm(loop.target) == "(current_edge, cap)"
            and _mw_norm(loop.iter) == "zip(current_edges[:-1], caps)" and not loop.orelse):
        raise Untranslatable("_apply_caps: loop header")
    lb = [_mw_norm(s) for s in _cc_strip(loop.body)]
    if len(lb) != 3 or lb[0] != "cap_node = tn.Node(cap)" \
            or not lb[1].startswith("edge_dict[current_edge] ^ ") \
            or lb[2] != "node_dict[current_node] = node_dict[current_node] @ cap_node":
        raise Untranslatable("_apply_caps: loop body %r" % lb)
    axis = _mw_axis(lb[1][len("edge_dict[current_edge] ^ "):], "cap_node", "_apply_caps")
    if texts[2] != "state_node = node_dict[current_node]" or texts[3] != "return state_node.get_tensor()":
        raise Untranslatable("_apply_caps: tail %r" % texts[2:])
    out.append("/-- %s:%d  _apply_caps: on a copy of the node, bond edge `i` (all edges but the last, in\n"
               "    list order) is joined to axis `capAxis` of `caps[i]`; what remains is the state leg -/\n"
               "def capAxis : Nat := %d\ndef capsOnCopy : Bool := true\ndef capsInListOrder : Bool := true\n"
               % (rel, fn.lineno, axis))


def _mw_getters(src, out):
    rel = "oqupy/system_dynamics.py"
    fn = src.function(rel, "_get_pt_mpos")
    texts = [_mw_norm(s) for s in _mw_body(fn)]
    if [a.arg for a in fn.args.args] != ["process_tensors", "step"] or texts != [
            "pt_mpos = []",
            "for i in range(len(process_tensors)): pt_mpo = process_tensors[i].get_mpo_tensor(step) "
            "pt_mpos.append(pt_mpo)",
            "return pt_mpos"]:
        raise Untranslatable("_get_pt_mpos: unexpected shape %r" % texts)
    out.append("/-- %s:%d  _get_pt_mpos: `process_tensors[i].get_mpo_tensor(step)` (transformed: the default)\n"
               "    for i = 0, 1, .. in list order -/\n"
               "def mposInListOrder : Bool := true\ndef mposTransformed : Bool := true\n" % (rel, fn.lineno))
    fn = src.function(rel, "_get_caps")
    body = _mw_body(fn)
    texts = [_mw_norm(s) for s in body]
    ok = [a.arg for a in fn.args.args] == ["process_tensors", "step"] and len(body) == 3 \
        and texts[0] == "caps = []" and texts[2] == "return caps" and isinstance(body[1], ast.For) \
        and _mw_norm(body[1].target) == "i" and _mw_norm(body[1].iter) == "range(len(process_tensors))"
    if ok:
        inner = [n for n in ast.walk(body[1]) if isinstance(n, (ast.Assign, ast.Expr))]
        itexts = [_mw_norm(n) for n in inner]
        ok = itexts.count("cap = process_tensors[i].get_cap_tensor(step)") == 1 \
            and itexts.count("caps.append(cap)") == 1 \
            and all(t in ("cap = process_tensors[i].get_cap_tensor(step)", "caps.append(cap)")
                    for t in itexts)
    if not ok:
        raise Untranslatable("_get_caps: unexpected shape %r" % texts)
    out.append("/-- %s:%d  _get_caps: `process_tensors[i].get_cap_tensor(step)` in list order (a missing cap\n"
               "    raises ValueError) -/\ndef capsGetInListOrder : Bool := true\n" % (rel, fn.lineno))


def _mw_compute_dynamics(src, out):
    rel = "oqupy/system_dynamics.py"
    fn = src.function(rel, "compute_dynamics")
    stmts = [n for n in ast.walk(fn) if isinstance(n, (ast.Assign, ast.Expr, ast.AugAssign))]
    texts = [_mw_norm(n) for n in stmts]

    def calls_of(name):
        return [_mw_norm(n) for n in ast.walk(fn)
                if isinstance(n, ast.Call) and _mw_norm(n.func) == name]

    def need(text, count=None):
        c = texts.count(text)
        if c == 0 or (count is not None and c != count):
            raise Untranslatable("compute_dynamics: expected %s statement `%s`, found %d"
                                 % ("one" if count == 1 else "a", text, c))
    need("num_envs = len(process_tensors)", 1)
    need("current_node = tn.Node(initial_ndarray)", 1)
    need("current_edges = current_node[:]", 1)
    shape = "[1] * num_envs + [hs_dim ** 2]"
    shaped = [t for t in texts if t in ("initial_ndarray.shape = tuple(%s)" % shape,
                                        "initial_ndarray = initial_ndarray.reshape(tuple(%s))" % shape,
                                        "initial_ndarray = initial_ndarray.reshape(%s)" % shape,
                                        "initial_ndarray = initial_state.reshape(tuple(%s))" % shape,
                                        "initial_ndarray = initial_state.reshape(%s)" % shape)]
    if len(shaped) != 1:
        raise Untranslatable("compute_dynamics: shape of the initial node")
    need("pt_mpos = _get_pt_mpos(process_tensors, step)", 1)
    if calls_of("_apply_pt_mpos") != ["_apply_pt_mpos(current_node, current_edges, pt_mpos)"] \
            or calls_of("_get_pt_mpos") != ["_get_pt_mpos(process_tensors, step)"]:
        raise Untranslatable("compute_dynamics: calls of _apply_pt_mpos / _get_pt_mpos")
    need("current_node, current_edges = _apply_pt_mpos(current_node, current_edges, pt_mpos)", 1)
    cc = calls_of("_get_caps")
    ca = calls_of("_apply_caps")
    if not cc or set(cc) != {"_get_caps(process_tensors, step)"} or len(ca) != len(cc) \
            or set(ca) != {"_apply_caps(current_node, current_edges, caps)"}:
        raise Untranslatable("compute_dynamics: calls of _get_caps / _apply_caps")
    need("caps = _get_caps(process_tensors, step)")
    need("state_tensor = _apply_caps(current_node, current_edges, caps)")
    out.append("/-- %s:%d  compute_dynamics: the propagated node starts as the vectorised initial state with\n"
               "    shape `[1]*num_envs + [hs_dim**2]`; `current_edges` are its edges in axis order (bond edge\n"
               "    `i` belongs to `process_tensors[i]`, the last edge is the state leg); per step the MPO\n"
               "    tensors of `_get_pt_mpos(process_tensors, step)` are applied by `_apply_pt_mpos` and a\n"
               "    state is read out with `_apply_caps(.., _get_caps(process_tensors, step))` -/\n"
               "def initBondDim : Nat := 1\ndef edgePerEnvironment : Bool := true\n" % (rel, fn.lineno))


def _mw_create_delta(src, out):
    rel = "oqupy/util.py"
    fn = src.function(rel, "create_delta")
    texts = [_mw_norm(s) for s in _mw_body(fn)]
    want = ["tensor_shape = tensor.shape",
            "a = [0] * len(tensor_shape)",
            "ret_shape = tuple((list(tensor_shape)[i] for i in index_scrambling))",
            "ret_ndarray = np.zeros(ret_shape, dtype=tensor.dtype)",
            "do_while_condition = True",
            "while do_while_condition: tensor_indices = tuple(a) "
            "ret_indices = tuple((a[i] for i in index_scrambling)) "
            "ret_ndarray[ret_indices] = tensor[tensor_indices] "
            "do_while_condition = increase_list_of_index(a, tensor_shape)",
            "return ret_ndarray"]
    if [a.arg for a in fn.args.args] != ["tensor", "index_scrambling"] or texts != want:
        raise Untranslatable("create_delta: unexpected shape %r" % texts)
    out.append("/-- %s:%d  create_delta(tensor, scr): a zero array of shape `shape[scr[0]], shape[scr[1]], ..`\n"
               "    with `ret[a[scr[0]], a[scr[1]], ..] = tensor[a]` for every index tuple `a` -/\n"
               "def deltaWritesScrambledIndex : Bool := true\n" % (rel, fn.lineno))


def _mw_int_list(node, where):
    if not isinstance(node, ast.List) or not all(
            isinstance(e, ast.Constant) and isinstance(e.value, int) and not isinstance(e.value, bool)
            for e in node.elts):
        raise Untranslatable("%s: expected a list of integer constants" % where)
    return [e.value for e in node.elts]


def _mw_transform_stmts(stmts, where):
    """[delta-if, in-if, out-if] -> wiring numbers"""
    texts = [_mw_norm(s) for s in stmts]
    if len(stmts) != 3 or not all(isinstance(s, ast.If) and not s.orelse for s in stmts):
        raise Untranslatable("%s: expected three `if` statements, found %r" % (where, texts))
    d, ti, to = stmts
    # delta
    t = d.test
    if not (isinstance(t, ast.Compare) and _mw_norm(t.left) == "len(tensor.shape)"
            and len(t.ops) == 1 and isinstance(t.ops[0], ast.Eq)
            and isinstance(t.comparators[0], ast.Constant) and isinstance(t.comparators[0].value, int)):
        raise Untranslatable("%s: rank test %s" % (where, _mw_norm(t)))
    rank = t.comparators[0].value
    if len(d.body) != 1 or not isinstance(d.body[0], ast.Assign) or _mw_norm(d.body[0].targets[0]) != "tensor" \
            or not isinstance(d.body[0].value, ast.Call) \
            or _mw_norm(d.body[0].value.func) != "util.create_delta" \
            or len(d.body[0].value.args) != 2 or _mw_norm(d.body[0].value.args[0]) != "tensor" \
            or d.body[0].value.keywords:
        raise Untranslatable("%s: delta statement %s" % (where, _mw_norm(d)))
    scr = _mw_int_list(d.body[0].value.args[1], where)
    if len(scr) != rank + 1 or sorted(set(scr)) != list(range(rank)):
        raise Untranslatable("%s: index scrambling %r for rank %d" % (where, scr, rank))
    # transform_in:  np.dot(np.moveaxis(tensor, A, -1), self._transform_in[.T]); moveaxis(tensor, -1, A)
    if _mw_norm(ti.test) != "self._transform_in is not None" or len(ti.body) != 2:
        raise Untranslatable("%s: transform_in block %s" % (where, _mw_norm(ti)))
    m = re.fullmatch(r"tensor = np\.dot\(np\.moveaxis\(tensor, (-?\d+), -1\), self\._transform_in(\.T)?\)",
                     _mw_norm(ti.body[0]))
    m2 = re.fullmatch(r"tensor = np\.moveaxis\(tensor, -1, (-?\d+)\)", _mw_norm(ti.body[1]))
    if not m or not m2 or m.group(1) != m2.group(1):
        raise Untranslatable("%s: transform_in statements %s" % (where, _mw_norm(ti)))
    in_axis = int(m.group(1))
    # np.dot(a, M) contracts the last axis of a with the first axis of the 2-d M
    in_mat_axis = 1 if m.group(2) else 0
    if _mw_norm(to.test) != "self._transform_out is not None" or len(to.body) != 1:
        raise Untranslatable("%s: transform_out block %s" % (where, _mw_norm(to)))
    m = re.fullmatch(r"tensor = np\.dot\(tensor, self\._transform_out(\.T)?\)", _mw_norm(to.body[0]))
    if not m:
        raise Untranslatable("%s: transform_out statement %s" % (where, _mw_norm(to)))
    out_mat_axis = 1 if m.group(1) else 0
    return rank, scr, in_axis, in_mat_axis, -1, out_mat_axis


def _mw_get_mpo_lean(name, doc, rank, scr, untr, w):
    return ("/-- %s -/\ndef %s : GetMpoWiring :=\n"
            "  { deltaRank := %d, deltaScramble := [%s], deltaWhenUntransformed := %s,\n"
            "    inAxis := %d, inMatAxis := %d, outAxis := %d, outMatAxis := %d, inBeforeOut := true }\n"
            % (doc, name, rank, ", ".join(map(str, scr)), "true" if untr else "false",
               w[0], w[1], w[2], w[3]))


_MW_MUTATORS = ("append", "extend", "insert", "update", "setdefault", "pop", "clear", "remove",
                 "popitem", "resize", "create_dataset")


def _mw_self_attr(node):
    """`self.<attr>` (possibly under subscripts / further attributes) -> attr, else None"""
    while isinstance(node, (ast.Subscript, ast.Attribute)):
        if isinstance(node, ast.Attribute) and isinstance(node.value, ast.Name) \
                and node.value.id == "self":
            return node.attr
        node = node.value
    return None


def _mw_written_attrs(fn):
    """attributes of `self` that the method assigns, deletes or mutates through a known mutator
    (or hands to the HDF5 writer `_set_data_and_shape`)"""
    out = []

    def add(a):
        if a is not None and a not in out:
            out.append(a)
    for n in ast.walk(fn):
        if isinstance(n, (ast.Assign, ast.AnnAssign, ast.AugAssign)):
            tgts = n.targets if isinstance(n, ast.Assign) else [n.target]
            for t in tgts:
                for e in (t.elts if isinstance(t, (ast.Tuple, ast.List)) else [t]):
                    add(_mw_self_attr(e))
        elif isinstance(n, ast.Delete):
            for t in n.targets:
                add(_mw_self_attr(t))
        elif isinstance(n, ast.Call):
            if isinstance(n.func, ast.Attribute) and n.func.attr in _MW_MUTATORS:
                add(_mw_self_attr(n.func.value))
            if _mw_norm(n.func) == "_set_data_and_shape":
                for a in list(n.args) + [k.value for k in n.keywords]:
                    add(_mw_self_attr(a))
    return out


def _mw_mentions(node, attrs):
    return any(isinstance(n, ast.Attribute) and isinstance(n.value, ast.Name) and n.value.id == "self"
               and n.attr in attrs for n in ast.walk(node))


def _mw_cache(src, cls, getter, setter):
    """(cache attributes written by cls.getter, are they all invalidated by cls.setter)"""
    rel = "oqupy/process_tensor.py"
    g = src.function(rel, "%s.%s" % (cls, getter))
    st = src.function(rel, "%s.%s" % (cls, setter))
    attrs = _mw_written_attrs(g)
    if not attrs:
        return [], True
    # invalidation: the setter removes / replaces the entry (pop, del, clear, assignment)
    done = set()
    for n in ast.walk(st):
        if isinstance(n, ast.Call) and isinstance(n.func, ast.Attribute) \
                and n.func.attr in ("pop", "clear", "popitem"):
            a = _mw_self_attr(n.func.value)
            if a in attrs:
                done.add(a)
        elif isinstance(n, ast.Delete):
            for t in n.targets:
                if _mw_self_attr(t) in attrs:
                    done.add(_mw_self_attr(t))
        elif isinstance(n, ast.Assign):
            for t in n.targets:
                if _mw_self_attr(t) in attrs:
                    done.add(_mw_self_attr(t))
    return attrs, all(a in done for a in attrs)


def _mw_cache_lean(name, cls, getter, setter, attrs, inval):
    doc = "%s.%s writes %s" % (cls, getter, ", ".join("self." + a for a in attrs)) if attrs \
        else "%s.%s writes no attribute of the object" % (cls, getter)
    if attrs:
        doc += "; %s.%s %s" % (cls, setter, "removes / replaces the entry" if inval
                               else "does NOT invalidate it")
    return ("/-- %s -/\ndef %s : CacheWiring := { cached := %s, invalidatedBySet := %s }\n"
            % (doc, name, "true" if attrs else "false", "true" if inval else "false"))


def _mw_strip_cache(body, attrs):
    """top-level statements of a getter that do not touch its cache attributes"""
    return [s for s in body if not _mw_mentions(s, attrs)]


def _mw_caches(src, out):
    res = {}
    for cls, tag in (("SimpleProcessTensor", "simple"), ("FileProcessTensor", "file")):
        for getter, setter, what in (("get_mpo_tensor", "set_mpo_tensor", "Mpo"),
                                     ("get_cap_tensor", "set_cap_tensor", "Cap")):
            attrs, inval = _mw_cache(src, cls, getter, setter)
            res[(cls, getter)] = attrs
            out.append(_mw_cache_lean("%s%sCache" % (tag, what), cls, getter, setter, attrs, inval))
        for other in ("get_initial_tensor", "get_bond_dimensions"):
            w = _mw_written_attrs(src.function("oqupy/process_tensor.py", "%s.%s" % (cls, other)))
            if w:
                raise Untranslatable("%s.%s writes %s" % (cls, other, w))
    return res


def _mw_get_mpo_tensor(src, out, caches=None):
    caches = caches or {}
    rel = "oqupy/process_tensor.py"
    # SimpleProcessTensor
    fn = src.function(rel, "SimpleProcessTensor.get_mpo_tensor")
    body = _mw_strip_cache(_mw_body(fn), caches.get(("SimpleProcessTensor", "get_mpo_tensor"), []))
    texts = [_mw_norm(s) for s in body]
    if [a.arg for a in fn.args.args] != ["self", "step", "transformed"] or len(body) != 8 \
            or texts[0] != "length = len(self._mpo_tensors)" \
            or not texts[1].startswith("if step >= length or step < 0: raise IndexError(") \
            or texts[2] != "tensor = self._mpo_tensors[step]" \
            or texts[4] != "if transformed is False: return tensor" or texts[7] != "return tensor":
        raise Untranslatable("SimpleProcessTensor.get_mpo_tensor: unexpected shape %r" % texts)
    d = fn.args.defaults
    if len(d) != 1 or not isinstance(d[0], ast.Constant) or d[0].value is not True:
        raise Untranslatable("SimpleProcessTensor.get_mpo_tensor: `transformed` must default to True")
    rank, scr, *w = _mw_transform_stmts([body[3], body[5], body[6]], "SimpleProcessTensor.get_mpo_tensor")
    out.append(_mw_get_mpo_lean(
        "simpleGetMpo", "%s:%d  SimpleProcessTensor.get_mpo_tensor(step, transformed=True) on the stored "
        "tensor `_mpo_tensors[step]`" % (rel, fn.lineno), rank, scr, True, w))
    # FileProcessTensor
    fn = src.function(rel, "FileProcessTensor.get_mpo_tensor")
    body = _mw_strip_cache(_mw_body(fn), caches.get(("FileProcessTensor", "get_mpo_tensor"), []))
    texts = [_mw_norm(s) for s in body]
    if [a.arg for a in fn.args.args] != ["self", "step", "transformed"] or len(body) != 3 \
            or texts[0] != "tensor = _get_data_and_shape(step, data=self._mpo_tensors_data, " \
                           "shape=self._mpo_tensors_shape)" \
            or not isinstance(body[1], ast.If) or _mw_norm(body[1].test) != "transformed" \
            or body[1].orelse or texts[2] != "return tensor":
        raise Untranslatable("FileProcessTensor.get_mpo_tensor: unexpected shape %r" % texts)
    d = fn.args.defaults
    if len(d) != 1 or not isinstance(d[0], ast.Constant) or d[0].value is not True:
        raise Untranslatable("FileProcessTensor.get_mpo_tensor: `transformed` must default to True")
    rank, scr, *w = _mw_transform_stmts(_cc_strip(body[1].body), "FileProcessTensor.get_mpo_tensor")
    out.append(_mw_get_mpo_lean(
        "fileGetMpo", "%s:%d  FileProcessTensor.get_mpo_tensor(step, transformed=True) on the stored tensor"
        % (rel, fn.lineno), rank, scr, False, w))
    # TrivialProcessTensor
    fn = src.function(rel, "TrivialProcessTensor.get_mpo_tensor")
    fc = src.function(rel, "TrivialProcessTensor.get_cap_tensor")
    if [_mw_norm(s) for s in _mw_body(fn)] != ["return None"] \
            or [_mw_norm(s) for s in _mw_body(fc)] != ["return np.array([1.0], dtype=NpDtype)"]:
        raise Untranslatable("TrivialProcessTensor: get_mpo_tensor / get_cap_tensor")
    out.append("/-- %s:%d  TrivialProcessTensor: no MPO tensor (`None`), cap `[1.0]` at every step -/\n"
               "def trivialMpoIsNone : Bool := true\ndef trivialCapIsOne : Bool := true\n" % (rel, fn.lineno))


_MW_CLOSERS = {"self._trace": "trace", "self._trace_square": "traceSquare",
               "self._trace_in": "traceIn", "self._trace_out": "traceOut",
               "self._trace_in * self._trace_out": "traceInTimesOut",
               "self._trace_out * self._trace_in": "traceInTimesOut"}


def _mw_cap_legs(stmts, nodes, where):
    """`ten[k] ^ name[0]` ... ; `new_cap = ten @ n1 @ n2 ..`  ->  [(k, closer)]"""
    nodes = dict(nodes)
    stmts = list(stmts)
    while stmts and isinstance(stmts[0], ast.Assign) and len(stmts[0].targets) == 1 \
            and isinstance(stmts[0].targets[0], ast.Name) and isinstance(stmts[0].value, ast.Call) \
            and _mw_norm(stmts[0].value.func) == "tn.Node" and len(stmts[0].value.args) == 1:
        # a closing vector defined inside the branch
        name, arg = stmts[0].targets[0].id, _mw_norm(stmts[0].value.args[0])
        if arg not in _MW_CLOSERS or name in nodes or name == "ten":
            raise Untranslatable("%s: node `%s = tn.Node(%s)`" % (where, name, arg))
        nodes[name] = _MW_CLOSERS[arg]
        stmts = stmts[1:]
    texts = [_mw_norm(s) for s in stmts]
    if len(texts) < 2 or not texts[-1].startswith("new_cap = ten @ "):
        raise Untranslatable("%s: leg statements %r" % (where, texts))
    legs, names = [], []
    for t in texts[:-1]:
        m = re.fullmatch(r"ten\[(\d+)\] \^ (\w+)\[0\]", t)
        if not m or m.group(2) not in nodes:
            raise Untranslatable("%s: cannot read `%s`" % (where, t))
        legs.append((int(m.group(1)), nodes[m.group(2)]))
        names.append(m.group(2))
    if texts[-1] != "new_cap = ten @ " + " @ ".join(names):
        raise Untranslatable("%s: `%s` does not contract exactly the joined nodes %r"
                             % (where, texts[-1], names))
    if len(set(k for k, _ in legs)) != len(legs) or len(set(names)) != len(names):
        raise Untranslatable("%s: a leg or a node is used twice" % where)
    return legs


def _mw_legs_lean(legs):
    return "[" + ", ".join("(%d, .%s)" % l for l in legs) + "]"


def _mw_cap_loop(loop, where, tensor_exprs, tail):
    """body of `for step in reversed(range(length))`"""
    if not (isinstance(loop, ast.For) and _mw_norm(loop.target) == "step"
            and _mw_norm(loop.iter) == "reversed(range(length))" and not loop.orelse):
        raise Untranslatable("%s: loop header" % where)
    lb = _cc_strip(loop.body)
    nodes = {"last_cap": "lastCap"}
    k = 0
    tensor = None
    while k < len(lb) and isinstance(lb[k], ast.Assign) and len(lb[k].targets) == 1 \
            and isinstance(lb[k].targets[0], ast.Name) and isinstance(lb[k].value, ast.Call) \
            and _mw_norm(lb[k].value.func) == "tn.Node" and len(lb[k].value.args) == 1:
        name, arg = lb[k].targets[0].id, _mw_norm(lb[k].value.args[0])
        if name == "ten":
            if arg not in tensor_exprs or tensor is not None:
                raise Untranslatable("%s: tensor source `%s`" % (where, arg))
            tensor = tensor_exprs[arg]
        elif arg in _MW_CLOSERS and name not in nodes:
            nodes[name] = _MW_CLOSERS[arg]
        else:
            raise Untranslatable("%s: node `%s = tn.Node(%s)`" % (where, name, arg))
        k += 1
    if tensor is None:
        raise Untranslatable("%s: no `ten = tn.Node(..)`" % where)
    rest = lb[k:]
    if len(rest) < len(tail) or [_mw_norm(s) for s in rest[len(rest) - len(tail):]] != tail:
        raise Untranslatable("%s: loop tail %r" % (where, [_mw_norm(s) for s in rest[-len(tail):]]))
    core = rest[:len(rest) - len(tail)]
    if len(core) == 1 and isinstance(core[0], ast.If) and _mw_norm(core[0].test) == "len(ten.shape) == 3" \
            and core[0].orelse:
        r3 = _mw_cap_legs(core[0].body, nodes, where + " (rank 3)")
        r4 = _mw_cap_legs(core[0].orelse, nodes, where + " (rank 4)")
    else:
        r3 = None
        r4 = _mw_cap_legs(core, nodes, where)
    return tensor, r3, r4


def _mw_caps_flags(src, out, cls, tag, results):
    """attributes that compute_caps writes besides its result (an "up to date" memo): every one
    must be reset UNCONDITIONALLY (a top-level statement) by set_mpo_tensor, or compute_caps may
    keep caps that belong to other tensors"""
    rel = "oqupy/process_tensor.py"
    fn = src.function(rel, cls + ".compute_caps")
    flags = [a for a in _mw_written_attrs(fn) if a not in results]
    st = src.function(rel, cls + ".set_mpo_tensor")
    reset = set()
    for n in _cc_strip(st.body):                       # top level only: not under any condition
        if isinstance(n, (ast.Assign, ast.AugAssign, ast.AnnAssign, ast.Delete)):
            tgts = n.targets if isinstance(n, (ast.Assign, ast.Delete)) else [n.target]
            for t in tgts:
                if _mw_self_attr(t) in flags:
                    reset.add(_mw_self_attr(t))
    inval = all(a in reset for a in flags)
    doc = ("%s.compute_caps writes %s besides the caps; %s.set_mpo_tensor %s"
           % (cls, ", ".join("self." + a for a in flags), cls,
              "resets it on every call" if inval else "does NOT reset it on every call")) if flags \
        else "%s.compute_caps writes nothing but the caps" % cls
    out.append("/-- %s -/\ndef %sCapsFlag : CacheWiring := { cached := %s, invalidatedBySet := %s }\n"
               % (doc, tag, "true" if flags else "false", "true" if inval else "false"))
    return flags


def _mw_compute_caps(src, out):
    rel = "oqupy/process_tensor.py"
    sflags = _mw_caps_flags(src, out, "SimpleProcessTensor", "simple", ["_cap_tensors"])
    fflags = _mw_caps_flags(src, out, "FileProcessTensor", "file", [])
    fn = src.function(rel, "SimpleProcessTensor.compute_caps")
    body = _mw_strip_cache(_mw_body(fn), sflags)
    texts = [_mw_norm(s) for s in body]
    if len(body) != 5 or texts[0] != "length = len(self)" \
            or texts[1] != "caps = [np.array([1.0], dtype=NpDtype)]" \
            or texts[2] != "last_cap = tn.Node(caps[-1])" or texts[4] != "self._cap_tensors = caps":
        raise Untranslatable("SimpleProcessTensor.compute_caps: unexpected shape %r" % texts)
    tensor, r3, r4 = _mw_cap_loop(
        body[3], "SimpleProcessTensor.compute_caps",
        {"self._mpo_tensors[step]": "stored", "self.get_mpo_tensor(step)": "transformed"},
        ["caps.insert(0, new_cap.get_tensor())", "last_cap = new_cap"])
    out.append("/-- %s:%d  SimpleProcessTensor.compute_caps -/\n"
               "def simpleCaps : CapWiring :=\n  { tensor := .%s, rank3 := %s, rank4 := %s,\n"
               "    lastIsOne := true, backwards := true }\n"
               % (rel, fn.lineno, tensor, "none" if r3 is None else "some " + _mw_legs_lean(r3),
                  _mw_legs_lean(r4)))
    fn = src.function(rel, "FileProcessTensor.compute_caps")
    body = _mw_strip_cache(_mw_body(fn), fflags)
    texts = [_mw_norm(s) for s in body]
    if len(body) != 5 or texts[0] != "length = len(self)" \
            or texts[1] != "cap = np.array([1.0], dtype=NpDtype)" \
            or texts[2] != "self.set_cap_tensor(length, cap)" or texts[3] != "last_cap = tn.Node(cap)":
        raise Untranslatable("FileProcessTensor.compute_caps: unexpected shape %r" % texts)
    tensor, r3, r4 = _mw_cap_loop(
        body[4], "FileProcessTensor.compute_caps",
        {"self.get_mpo_tensor(step)": "transformed"},
        ["self.set_cap_tensor(step, new_cap.get_tensor())", "last_cap = new_cap"])
    out.append("/-- %s:%d  FileProcessTensor.compute_caps -/\n"
               "def fileCaps : CapWiring :=\n  { tensor := .%s, rank3 := %s, rank4 := %s,\n"
               "    lastIsOne := true, backwards := true }\n"
               % (rel, fn.lineno, tensor, "none" if r3 is None else "some " + _mw_legs_lean(r3),
                  _mw_legs_lean(r4)))


def _mw_trace_vectors(src, out):
    rel = "oqupy/process_tensor.py"
    fn = src.function(rel, "BaseProcessTensor.__init__")
    body = _mw_body(fn)
    texts = [_mw_norm(s) for s in body]

    def need(t):
        if texts.count(t) != 1:
            raise Untranslatable("BaseProcessTensor.__init__: expected one statement `%s`" % t)
    need("self._hs_dim = hilbert_space_dimension")
    need("self._rho_dim = self._hs_dim ** 2")
    need("self._trace = (np.identity(self._hs_dim, dtype=NpDtype) / np.sqrt(float(self._hs_dim))).flatten()")
    need("self._trace_square = self._trace ** 2")
    # every assignment to the transform / trace attributes, with the names its enclosing `if`
    # tests require to be not None (any nesting; the else-branch of a test does not count)
    assigned = {}          # attr -> list of (value text, sorted guard names)

    def guard_names(test):
        parts = test.values if isinstance(test, ast.BoolOp) and isinstance(test.op, ast.And) else [test]
        names = []
        for c in parts:
            if isinstance(c, ast.Compare) and len(c.ops) == 1 and isinstance(c.ops[0], ast.IsNot) \
                    and isinstance(c.comparators[0], ast.Constant) and c.comparators[0].value is None \
                    and isinstance(c.left, ast.Name):
                names.append(c.left.id)
            else:
                raise Untranslatable("BaseProcessTensor.__init__: cannot read the test `%s`" % _mw_norm(test))
        return names

    def visit(stmts, guards):
        for st in stmts:
            if isinstance(st, ast.If):
                g = guard_names(st.test)
                visit(st.body, guards + g)
                visit(st.orelse, guards)
            elif isinstance(st, ast.Assign) and len(st.targets) == 1:
                t = _mw_norm(st.targets[0])
                assigned.setdefault(t, []).append((_mw_norm(st.value), sorted(set(guards))))
            elif isinstance(st, (ast.For, ast.While, ast.With, ast.Try)):
                raise Untranslatable("BaseProcessTensor.__init__: unexpected %s" % type(st).__name__)
    visit(body, [])
    asserts = [_mw_norm(n) for n in ast.walk(fn) if isinstance(n, ast.Assert)]
    guards_of = {}
    for which, matmul, dim_axis in (("in", "self._trace @ self._transform_in", 0),
                                    ("out", "self._transform_out @ self._trace", 1)):
        tmp = "tmp_transform_%s" % which
        want = {tmp: {"np.array(transform_%s, dtype=NpDtype)" % which},
                "self._transform_%s" % which: {tmp, "None"},
                "self._trace_%s" % which: {matmul, "self._trace"},
                "self._%s_dim" % which: {"%s.shape[%d]" % (tmp, 1 - dim_axis), "self._rho_dim"}}
        for attr, vals in want.items():
            got = {v for v, _ in assigned.get(attr, [])}
            if got != vals:
                raise Untranslatable("BaseProcessTensor.__init__: %s is assigned %r, expected %r"
                                     % (attr, sorted(got), sorted(vals)))
        for a in ("assert len(%s.shape) == 2" % tmp, "assert %s.shape[%d] == self._rho_dim" % (tmp, dim_axis)):
            if a not in asserts:
                raise Untranslatable("BaseProcessTensor.__init__: missing `%s`" % a)
        # the guard under which the given transform (and the trace vector made from it) is stored
        gs = {tuple(g) for attr, v in (("self._transform_%s" % which, tmp), ("self._trace_%s" % which, matmul),
                                       ("self._%s_dim" % which, "%s.shape[%d]" % (tmp, 1 - dim_axis)))
              for val, g in assigned[attr] if val == v}
        if len(gs) != 1:
            raise Untranslatable("BaseProcessTensor.__init__: transform_%s is stored under different tests" % which)
        guards_of[which] = list(gs.pop())
        # the defaults (None / plain trace) must not be conditional on anything but this transform
        for attr, v in (("self._transform_%s" % which, "None"), ("self._trace_%s" % which, "self._trace")):
            for val, g in assigned[attr]:
                if val == v and g:
                    raise Untranslatable("BaseProcessTensor.__init__: default of %s is conditional" % attr)
    out.append("/-- %s:%d  BaseProcessTensor.__init__: the arguments that must be given (not None) for\n"
               "    `transform_in` / `transform_out` to be stored (and `_trace_in` / `_trace_out` made from it) -/\n"
               "def transformInGuard : List String := [%s]\ndef transformOutGuard : List String := [%s]\n"
               % (rel, fn.lineno, ", ".join('"%s"' % g for g in guards_of["in"]),
                  ", ".join('"%s"' % g for g in guards_of["out"])))
    # 1-d @ 2-d contracts axis 0 of the matrix; 2-d @ 1-d contracts axis 1
    out.append("/-- %s:%d  BaseProcessTensor.__init__:  `_trace = identity(d)/sqrt(d)` flattened (row-major),\n"
               "    `_trace_square = _trace**2`,  `_trace_in = _trace @ transform_in` (axis `traceInMatAxis` of\n"
               "    `transform_in`, whose size must be `d**2`, is summed), `_trace_out = transform_out @ _trace`\n"
               "    (axis `traceOutMatAxis` of `transform_out`);  without a transform both are `_trace` -/\n"
               "def traceIsIdentityOverSqrtDim : Bool := true\ndef traceSquareIsSquare : Bool := true\n"
               "def traceInMatAxis : Nat := 0\ndef traceOutMatAxis : Nat := 1\n" % (rel, fn.lineno))


@fragment("MpoWiring")
def frag_mpowiring(src):
    out = [MW_PREAMBLE]
    _mw_compute_dynamics(src, out)
    _mw_getters(src, out)
    _mw_apply_pt_mpos(src, out)
    _mw_apply_caps(src, out)
    _mw_create_delta(src, out)
    caches = _mw_caches(src, out)
    _mw_get_mpo_tensor(src, out, caches)
    _mw_trace_vectors(src, out)
    _mw_compute_caps(src, out)
    return "\n".join(out)
# end of MpoWiring


# ---------------------------------------------------------------------------
# ChainLindblad  (C10):  the operator algebra of SystemChain.add_site_hamiltonian /
# add_site_dissipation / add_nn_hamiltonian / add_nn_dissipation, with the helpers of
# oqupy/operators.py inlined: every Liouvillian contribution as a sum of terms
#     coefficient * (rho -> A rho B)           (one site:  np.kron(A, B.T))
#     coefficient * (rho -> (A1 x A2) rho (B1 x B2))   (two sites:  np.kron(np.kron(A1, B1.T), np.kron(A2, B2.T)))
# ---------------------------------------------------------------------------

CL_PREAMBLE = '''/-- operator expressions over the arguments of the method (`var k` = k-th operator argument) -/
inductive OpE where
  | one
  | var (k : Nat)
  | dag (e : OpE)
  | mul (a b : OpE)
  deriving DecidableEq, Repr

/-- coefficient `(re + i·im) · gamma^g` -/
structure Coef where
  re : Rat
  im : Rat
  gamma : Bool
  deriving DecidableEq, Repr

/-- `coef · (rho -> left · rho · right)`, i.e. `coef * np.kron(left, right.T)` -/
structure Term1 where
  coef : Coef
  left : OpE
  right : OpE
  deriving DecidableEq, Repr

/-- `coef · (rho -> (l1 x l2) · rho · (r1 x r2))`, i.e.
    `coef * np.kron(np.kron(l1, r1.T), np.kron(l2, r2.T))` -/
structure Term2 where
  coef : Coef
  l1 : OpE
  r1 : OpE
  l2 : OpE
  r2 : OpE
  deriving DecidableEq, Repr
'''


class _CLEval:
    """symbolic evaluation of the numpy expressions that build a Liouvillian"""

    def __init__(self, src):
        self.src = src
        self.helpers = {}
        tree = src.tree("oqupy/operators.py")
        for n in tree.body:
            if isinstance(n, ast.FunctionDef):
                self.helpers[n.name] = n

    # -- operator values: ('one',) ('var',k) ('dag',e) ('T',e) ('conj',e) ('mul',a,b)
    def norm_op(self, e):
        k = e[0]
        if k in ("one", "var"):
            return e
        if k == "mul":
            return ("mul", self.norm_op(e[1]), self.norm_op(e[2]))
        x = self.norm_op(e[1])
        if x == ("one",):
            return x
        if k == "T":
            if x[0] == "T":
                return x[1]
            if x[0] == "conj":
                return self.norm_op(("dag", x[1]))
            if x[0] == "dag":
                return ("conj", x[1])
            if x[0] == "mul":       # (ab)^T = b^T a^T
                return ("mul", self.norm_op(("T", x[2])), self.norm_op(("T", x[1])))
            return ("T", x)
        if k == "conj":
            if x[0] == "conj":
                return x[1]
            if x[0] == "T":
                return self.norm_op(("dag", x[1]))
            if x[0] == "dag":
                return ("T", x[1])
            if x[0] == "mul":
                return ("mul", self.norm_op(("conj", x[1])), self.norm_op(("conj", x[2])))
            return ("conj", x)
        if k == "dag":
            if x[0] == "dag":
                return x[1]
            if x[0] == "T":
                return ("conj", x[1])
            if x[0] == "conj":
                return ("T", x[1])
            return ("dag", x)
        raise Untranslatable("operator expression " + repr(e))

    def ev(self, node, env, where):
        """-> ('op', e) | ('sup', [(coef, kind, ops)]) | ('num', complex, gpow) | ('junk',)"""
        u = _tl_norm(node)
        if isinstance(node, ast.Name):
            if node.id in env:
                return env[node.id]
            raise Untranslatable("%s: unknown name %s" % (where, node.id))
        if isinstance(node, ast.Constant) and isinstance(node.value, (int, float, complex)) \
                and not isinstance(node.value, bool):
            return ("num", complex(node.value), 0)
        if isinstance(node, ast.UnaryOp) and isinstance(node.op, ast.USub):
            v = self.ev(node.operand, env, where)
            return self.scale(("num", -1 + 0j, 0), v, where)
        if isinstance(node, ast.Attribute) and node.attr == "T":
            v = self.ev(node.value, env, where)
            if v[0] != "op":
                raise Untranslatable("%s: .T of a non-operator in %s" % (where, u))
            return ("op", self.norm_op(("T", v[1])))
        if isinstance(node, ast.Subscript) and isinstance(node.value, ast.Attribute) \
                and node.value.attr == "shape":
            return ("junk",)
        if isinstance(node, ast.Call):
            f = node.func
            if isinstance(f, ast.Attribute) and f.attr in ("conjugate", "conj") and not node.args:
                v = self.ev(f.value, env, where)
                if v[0] != "op":
                    raise Untranslatable("%s: conjugate of a non-operator" % where)
                return ("op", self.norm_op(("conj", v[1])))
            name = _tl_norm(f)
            if name == "np.identity":
                return ("op", ("one",))
            if name == "np.array" and len(node.args) == 1:
                return self.ev(node.args[0], env, where)
            if name == "np.dot" and len(node.args) == 2 and not node.keywords:
                a, b = (self.ev(x, env, where) for x in node.args)
                return self.matmul(a, b, where)
            if name == "np.kron" and len(node.args) == 2 and not node.keywords:
                a, b = (self.ev(x, env, where) for x in node.args)
                return self.kron(a, b, where)
            short = name[4:] if name.startswith("opr.") else name
            if short in self.helpers and (name.startswith("opr.") or name == short):
                return self.call(self.helpers[short], node, env, where)
            raise Untranslatable("%s: call of %s" % (where, name))
        if isinstance(node, ast.BinOp):
            a = self.ev(node.left, env, where)
            b = self.ev(node.right, env, where)
            if isinstance(node.op, ast.MatMult):
                return self.matmul(a, b, where)
            if isinstance(node.op, ast.Mult):
                return self.scale(a, b, where)
            if isinstance(node.op, (ast.Add, ast.Sub)):
                if a[0] == "num" and b[0] == "num" and a[2] == 0 and b[2] == 0:
                    return ("num", a[1] + b[1] if isinstance(node.op, ast.Add) else a[1] - b[1], 0)
                if a[0] != "sup" or b[0] != "sup":
                    raise Untranslatable("%s: sum of non-superoperators in %s" % (where, u[:80]))
                if isinstance(node.op, ast.Sub):
                    b = self.scale(("num", -1 + 0j, 0), b, where)
                return ("sup", a[1] + b[1])
        raise Untranslatable("%s: expression %s" % (where, u[:100]))

    def matmul(self, a, b, where):
        if a[0] != "op" or b[0] != "op":
            raise Untranslatable("%s: matrix product of non-operators" % where)
        if a[1] == ("one",):
            return b
        if b[1] == ("one",):
            return a
        return ("op", ("mul", a[1], b[1]))

    def scale(self, a, b, where):
        if a[0] == "num" and b[0] == "num":
            return ("num", a[1] * b[1], a[2] + b[2])
        if b[0] == "num":
            a, b = b, a
        if a[0] == "num" and b[0] == "sup":
            out = []
            for (c, g), kind, ops in b[1]:
                out.append(((a[1] * c, a[2] + g), kind, ops))
            return ("sup", out)
        raise Untranslatable("%s: product of %s and %s" % (where, a[0], b[0]))

    def kron(self, a, b, where):
        if a[0] == "op" and b[0] == "op":
            # np.kron(A, X) acts as rho -> A rho X^T
            return ("sup", [((1 + 0j, 0), 1, (a[1], self.norm_op(("T", b[1]))))])
        if a[0] == "sup" and b[0] == "sup" and len(a[1]) == 1 and len(b[1]) == 1 \
                and a[1][0][1] == 1 and b[1][0][1] == 1 \
                and a[1][0][0] == (1 + 0j, 0) and b[1][0][0] == (1 + 0j, 0):
            return ("sup", [((1 + 0j, 0), 2, a[1][0][2] + b[1][0][2])])
        raise Untranslatable("%s: np.kron of unsupported operands" % where)

    def call(self, fn, node, env, where):
        params = [a.arg for a in fn.args.args]
        bound = {}
        for p, a in zip(params, node.args):
            bound[p] = self.ev(a, env, where)
        for kw in node.keywords:
            if kw.arg not in params:
                raise Untranslatable("%s: keyword %s of %s" % (where, kw.arg, fn.name))
            bound[kw.arg] = self.ev(kw.value, env, where)
        if sorted(bound) != sorted(params):
            raise Untranslatable("%s: arguments of %s" % (where, fn.name))
        return self.body(fn, bound, "operators." + fn.name)

    def body(self, fn, env, where):
        env = dict(env)
        for s in _tl_body(fn):
            if isinstance(s, ast.Assign) and len(s.targets) == 1 and isinstance(s.targets[0], ast.Name):
                env[s.targets[0].id] = self.ev(s.value, env, where)
            elif isinstance(s, ast.Return):
                return self.ev(s.value, env, where)
            else:
                raise Untranslatable("%s: statement %s" % (where, _tl_norm(s)[:80]))
        raise Untranslatable("%s: no return" % where)


def _cl_ope(e, where):
    if e == ("one",):
        return ".one"
    if e[0] == "var":
        return "(.var %d)" % e[1]
    if e[0] == "dag":
        return "(.dag %s)" % _cl_ope(e[1], where)
    if e[0] == "mul":
        return "(.mul %s %s)" % (_cl_ope(e[1], where), _cl_ope(e[2], where))
    raise Untranslatable("%s: a bare transpose / complex conjugate (%r) remains in a term; the "
                         "Lindblad form cannot be stated over an abstract *-algebra" % (where, e))


def _cl_rat(x, where):
    from fractions import Fraction
    f = Fraction(x)
    if f.denominator & (f.denominator - 1):
        raise Untranslatable("%s: coefficient %r" % (where, x))
    return "(%d : Rat)" % f.numerator if f.denominator == 1 else \
        "((%d : Rat) / %d)" % (f.numerator, f.denominator)


def _cl_emit(name, kind, terms, where, doc, out):
    rows = []
    for (c, g), k, ops in terms:
        if k != kind:
            raise Untranslatable("%s: a %d-site term in a %d-site Liouvillian" % (where, k, kind))
        if g not in (0, 1):
            raise Untranslatable("%s: gamma to the power %d" % (where, g))
        coef = "⟨%s, %s, %s⟩" % (_cl_rat(c.real, where), _cl_rat(c.imag, where),
                                  "true" if g else "false")
        rows.append("⟨%s, %s⟩" % (coef, ", ".join(_cl_ope(o, where) for o in ops)))
    out.append("/-- %s -/\ndef %s : List Term%d :=\n  [%s]\n"
               % (doc.replace("-/", "- /"), name, kind, ",\n   ".join(rows)))


def _cl_method(src, ev, qual, target, argnames, gamma_name, lean_name, kind, out):
    rel = "oqupy/system.py"
    fn = src.function(rel, qual)
    env = {}
    for k, a in enumerate(argnames):
        env[a] = ("op", ("var", k))
    if gamma_name:
        env[gamma_name] = ("num", 1 + 0j, 1)
    incr = None
    for s in _tl_body(fn):
        if isinstance(s, ast.Assign) and len(s.targets) == 1 and isinstance(s.targets[0], ast.Name):
            env[s.targets[0].id] = ev.ev(s.value, env, qual)
        elif isinstance(s, ast.AugAssign) and isinstance(s.op, ast.Add) \
                and _tl_norm(s.target) == target:
            if incr is not None:
                raise Untranslatable("%s: more than one update of %s" % (qual, target))
            incr = s
        else:
            raise Untranslatable("%s: statement %s" % (qual, _tl_norm(s)[:80]))
    if incr is None:
        raise Untranslatable("%s: no `%s += ...`" % (qual, target))
    v = ev.ev(incr.value, env, qual)
    if v[0] != "sup":
        raise Untranslatable("%s: the increment is not a superoperator" % qual)
    doc = "%s:%d  %s:  %s += %s   (operator arguments, in order: %s%s)" % (
        rel, incr.lineno, qual, target, _tl_norm(incr.value), ", ".join(argnames),
        "; gamma = " + gamma_name if gamma_name else "")
    _cl_emit(lean_name, kind, v[1], qual, doc, out)


@fragment("ChainLindblad")
def frag_chainlindblad(src):
    out = [CL_PREAMBLE]
    ev = _CLEval(src)
    _cl_method(src, ev, "SystemChain.add_site_hamiltonian", "self._site_liouvillians[site]",
               ["hamiltonian"], None, "site_hamiltonian", 1, out)
    _cl_method(src, ev, "SystemChain.add_site_dissipation", "self._site_liouvillians[site]",
               ["lindblad_operator"], "gamma", "site_dissipation", 1, out)
    _cl_method(src, ev, "SystemChain.add_nn_hamiltonian", "self._nn_liouvillians[site]",
               ["hamiltonian_l", "hamiltonian_r"], None, "nn_hamiltonian", 2, out)
    _cl_method(src, ev, "SystemChain.add_nn_dissipation", "self._nn_liouvillians[site]",
               ["lindblad_operator_l", "lindblad_operator_r"], "gamma", "nn_dissipation", 2, out)
    return "\n".join(out)
# end of ChainLindblad


# ---------------------------------------------------------------------------
# DynamicsAdd (C13): the order of index lookup and insertions in Dynamics.add and
# MeanFieldDynamics.add
# ---------------------------------------------------------------------------

@fragment("DynamicsAdd")
def frag_dynamics_add(src):
    out = ["""/-- one bookkeeping statement of an `add` method: look up the insertion index in a list,
    or insert into a list at the index found before -/
inductive AddOp where
  | find (list : String)
  | insert (list : String)
  | delegate            -- `system_dynamics.add(time, state)` for every system (MeanFieldDynamics)
  deriving DecidableEq, Repr
"""]
    for qual, name in (("Dynamics.add", "dynamics_add_ops"),
                       ("MeanFieldDynamics.add", "mfd_add_ops")):
        fn = src.function("oqupy/dynamics.py", qual)
        ops = []

        def visit(stmts):
            for st in stmts:
                if isinstance(st, ast.Expr) and isinstance(st.value, ast.Constant):
                    continue
                text = ast.unparse(st)
                if isinstance(st, ast.Assign) and isinstance(st.value, ast.Call) \
                        and attr_chain(st.value.func) == ["_find_list_index"]:
                    if ast.unparse(st.targets[0]) != "index":
                        raise Untranslatable(qual + ": index variable is not `index`")
                    lst = attr_chain(st.value.args[0])
                    if not lst or lst[0] != "self" or ast.unparse(st.value.args[1]) != "tmp_time":
                        raise Untranslatable(qual + ": unexpected _find_list_index arguments")
                    ops.append('.find "%s"' % lst[-1])
                    continue
                if isinstance(st, ast.Expr) and isinstance(st.value, ast.Call):
                    ch = attr_chain(st.value.func)
                    if ch and ch[0] == "self" and ch[-1] == "insert":
                        if ast.unparse(st.value.args[0]) != "index":
                            raise Untranslatable(qual + ": insert position is not `index`")
                        ops.append('.insert "%s"' % ch[-2])
                        continue
                    if ch and ch[-1] == "add" and ch[0] == "system_dynamics":
                        ops.append(".delegate")
                        continue
                if isinstance(st, ast.For):
                    visit(st.body)
                    continue
                if isinstance(st, ast.If):
                    # bookkeeping of shapes / creation of the per-system Dynamics: must not touch the lists
                    for n in ast.walk(st):
                        if isinstance(n, ast.Call) and attr_chain(n.func) and \
                                attr_chain(n.func)[-1] in ("insert", "append", "insort", "pop", "sort"):
                            raise Untranslatable(qual + ": list mutation inside a branch: " + text[:80])
                    continue
                # anything else that mutates one of the lists is not understood
                for n in ast.walk(st):
                    if isinstance(n, ast.Call) and attr_chain(n.func):
                        c = attr_chain(n.func)
                        if c[-1] in ("insert", "append", "insort", "insort_left", "insort_right",
                                     "pop", "sort", "extend", "remove"):
                            raise Untranslatable(qual + ": unexpected list mutation: " + text[:80])
        visit(fn.body)
        out.append("/-- oqupy/dynamics.py:%d  %s -/\ndef %s : List AddOp := [%s]\n"
                   % (fn.lineno, qual, name, ", ".join(ops)))
    helper = src.function("oqupy/dynamics.py", "_find_list_index")
    rets = [n for n in ast.walk(helper) if isinstance(n, ast.Return)]
    if len(rets) != 1 or ast.unparse(rets[0].value) != "bisect(sorted_list, entry_value)":
        raise Untranslatable("_find_list_index is not `bisect(sorted_list, entry_value)`")
    out.append("/-- `_find_list_index` is `bisect.bisect` (= bisect_right) -/\n"
               "def find_list_index_is_bisect_right : Bool := true\n")
    # the read-only views: built from the live lists on every read, or kept?
    out.append("open OQuPyVerif.TimeGrid\n")
    for cls, prop, lst, dty, name in (
            ("BaseDynamics", "times", "_times", "NpDtypeReal", "dynamics_times_read"),
            ("BaseDynamics", "states", "_states", "NpDtype", "dynamics_states_read"),
            ("MeanFieldDynamics", "times", "_times", "NpDtypeReal", "mfd_times_read"),
            ("MeanFieldDynamics", "fields", "_fields", "NpDtype", "mfd_fields_read")):
        fn = _da_property(src, "oqupy/dynamics.py", cls, prop)
        body = [st for st in fn.body if not (isinstance(st, ast.Expr) and isinstance(st.value, ast.Constant))]
        texts = ["".join(ast.unparse(st).split()) for st in body]
        live = "returnnp.array(self.%s,dtype=%s)" % (lst, dty)
        kind = None
        if texts == [live]:
            kind = ".live"
        elif len(body) == 2 and isinstance(body[0], ast.If) and isinstance(body[1], ast.Return):
            import re as _re
            m = _re.fullmatch(r"ifself\.(\w+)isNone:self\.(\w+)=np\.array\(self\.%s,dtype=%s\)" % (lst, dty),
                              texts[0])
            if m and m.group(1) == m.group(2) and texts[1] == "returnself.%s" % m.group(1):
                kind = ".memo"
        if kind is None:
            raise Untranslatable("%s.%s: neither `return np.array(self.%s, dtype=%s)` nor a "
                                 "build-once cache of it: %s" % (cls, prop, lst, dty, " ; ".join(texts)[:120]))
        out.append("/-- oqupy/dynamics.py:%d  %s.%s -/\ndef %s : ReadKind := %s\n"
                   % (fn.lineno, cls, prop, name, kind))
    fn = _da_property(src, "oqupy/dynamics.py", "BaseDynamics", "__len__", prop=False)
    if ["".join(ast.unparse(st).split()) for st in fn.body] != ["returnlen(self._times)"]:
        raise Untranslatable("BaseDynamics.__len__ is not len(self._times)")
    return "\n".join(out)


def _da_property(src, rel, cls, name, prop=True):
    node = src.tree(rel)
    for c in node.body:
        if isinstance(c, ast.ClassDef) and c.name == cls:
            for f in c.body:
                if isinstance(f, ast.FunctionDef) and f.name == name:
                    if prop and not any(isinstance(d, ast.Name) and d.id == "property"
                                        for d in f.decorator_list):
                        continue
                    return f
    raise Untranslatable("cannot find %s.%s in %s" % (cls, name, rel))


# ---------------------------------------------------------------------------
# CorrBath  (C07):  oqupy/bath_dynamics.py -- which system operator the bath correlations are
#                   built from, which compute_correlations call feeds them, and the cell
#                   formulas of the frequency-window kernels (over an abstract field K with an
#                   exponential `E`)
# ---------------------------------------------------------------------------

class _C07K:
    """expression -> Lean term over a carrier K (core classes Add Sub Mul Div Neg IntCast),
    `np.exp` -> `E`, `1j` -> `I`, `x[<int>]` -> `x_<int>`."""

    def __init__(self, allowed):
        self.allowed = set(allowed)
        self.free = []

    def var(self, n):
        if n not in self.allowed:
            raise Untranslatable("CorrBath: unexpected name %r" % n)
        if n not in self.free:
            self.free.append(n)
        return n

    def expr(self, e):
        if isinstance(e, ast.Constant):
            if isinstance(e.value, bool):
                raise Untranslatable("CorrBath: bool constant")
            if isinstance(e.value, int):
                return "((%d : Int) : K)" % e.value
            if isinstance(e.value, complex) and e.value == 1j:
                return self.var("I")
            raise Untranslatable("CorrBath: constant %r" % (e.value,))
        if isinstance(e, ast.Name):
            return self.var(e.id)
        if isinstance(e, ast.Subscript) and isinstance(e.value, ast.Name) \
                and isinstance(e.slice, ast.Constant) and isinstance(e.slice.value, int):
            return self.var("%s_%d" % (e.value.id, e.slice.value))
        if isinstance(e, ast.UnaryOp) and isinstance(e.op, ast.USub):
            return "(-%s)" % self.expr(e.operand)
        if isinstance(e, ast.BinOp):
            sym = {ast.Add: "+", ast.Sub: "-", ast.Mult: "*", ast.Div: "/"}.get(type(e.op))
            if sym is None:
                raise Untranslatable("CorrBath: operator " + ast.dump(e.op))
            return "(%s %s %s)" % (self.expr(e.left), sym, self.expr(e.right))
        if isinstance(e, ast.Call) and attr_chain(e.func) == ["np", "exp"] and len(e.args) == 1 \
                and not e.keywords:
            return "(E %s)" % self.expr(e.args[0])
        raise Untranslatable("CorrBath: expression " + ast.unparse(e)[:120])


_C07K_SIG = "{K : Type} [Add K] [Sub K] [Mul K] [Div K] [Neg K] [IntCast K]"


def _c07_kdef(name, term, params, doc, with_E=True):
    sig = " ".join("(%s : K)" % p for p in params)
    return "/-- %s -/\ndef %s %s %s%s : K :=\n  %s\n" % (
        doc.replace("-/", "- /"), name, _C07K_SIG, "(E : K → K) " if with_E else "", sig, term)


def _c07_signed_terms(stmts, target, unwrap):
    """`target = X; target -= Y; target += Z` -> [(+1|-1, node)], with `unwrap` applied to
    every right-hand side"""
    out = []
    for s in stmts:
        if isinstance(s, ast.Assign) and len(s.targets) == 1 and isinstance(s.targets[0], ast.Name) \
                and s.targets[0].id == target:
            if out:
                raise Untranslatable("CorrBath: %s assigned twice" % target)
            out.append((1, unwrap(s.value)))
        elif isinstance(s, ast.AugAssign) and isinstance(s.target, ast.Name) and s.target.id == target:
            sg = {ast.Add: 1, ast.Sub: -1}.get(type(s.op))
            if sg is None or not out:
                raise Untranslatable("CorrBath: update of %s" % target)
            out.append((sg, unwrap(s.value)))
    return out


def _c07_sum(tr, terms):
    out = None
    for sg, node in terms:
        t = tr.expr(node)
        if out is None:
            out = t if sg > 0 else "(-%s)" % t
        else:
            out = "(%s %s %s)" % (out, "+" if sg > 0 else "-", t)
    return out


def _c07_factor_tag(node, fn, unitary_names, depth=0):
    """one factor of the `@` product -> "U" | "Ud" | "D" """
    text = ast.unparse(node)
    if text == "self.bath.unitary_transform" or text == "self._unitary" or text in unitary_names:
        return "U"
    if text in ("self.bath.coupling_operator", "self._coupling_operator"):
        return "D"
    # <u>.conjugate().T | <u>.conj().T | <u>.T.conjugate() | <u>.T.conj()
    inner = None
    if isinstance(node, ast.Attribute) and node.attr == "T" and isinstance(node.value, ast.Call) \
            and isinstance(node.value.func, ast.Attribute) \
            and node.value.func.attr in ("conjugate", "conj") and not node.value.args:
        inner = node.value.func.value
    elif isinstance(node, ast.Call) and isinstance(node.func, ast.Attribute) \
            and node.func.attr in ("conjugate", "conj") and not node.args \
            and isinstance(node.func.value, ast.Attribute) and node.func.value.attr == "T":
        inner = node.func.value.value
    if inner is not None and _c07_factor_tag(inner, fn, unitary_names, depth + 1) == "U":
        return "Ud"
    if isinstance(node, ast.Name) and depth < 3:
        hits = [n for n in ast.walk(fn) if isinstance(n, ast.Assign) and len(n.targets) == 1
                and isinstance(n.targets[0], ast.Name) and n.targets[0].id == node.id]
        if len(hits) == 1:
            return _c07_factor_tag(hits[0].value, fn, unitary_names, depth + 1)
    raise Untranslatable("CorrBath: factor %s of the rebuilt coupling operator" % text)


def _c07_matmul_factors(node):
    if isinstance(node, ast.BinOp) and isinstance(node.op, ast.MatMult):
        return _c07_matmul_factors(node.left) + _c07_matmul_factors(node.right)
    return [node]


@fragment("CorrBath")
def frag_corrbath(src):
    rel = "oqupy/bath_dynamics.py"
    out = []
    # ---- Bath: what is stored ---------------------------------------------------
    fb = src.function("oqupy/bath.py", "Bath.__init__")
    eig = [n for n in ast.walk(fb) if isinstance(n, ast.Assign) and isinstance(n.value, ast.Call)
           and attr_chain(n.value.func) in (["np", "linalg", "eigh"], ["np", "linalg", "eig"])]
    if len(eig) != 1 or ast.unparse(eig[0].targets[0]) != "(w, v)":
        raise Untranslatable("Bath.__init__: w, v = np.linalg.eigh(..)")
    stores = {ast.unparse(n.targets[0]): ast.unparse(n.value) for n in ast.walk(fb)
              if isinstance(n, ast.Assign) and len(n.targets) == 1
              and ast.unparse(n.targets[0]) in ("self._unitary", "self._coupling_operator")
              and ast.unparse(n.value) in ("v", "np.diag(w)")}
    if stores != {"self._unitary": "v", "self._coupling_operator": "np.diag(w)"}:
        raise Untranslatable("Bath.__init__: what is stored as unitary / coupling operator")
    recon = [n for n in ast.walk(fb) if isinstance(n, ast.Call) and attr_chain(n.func) == ["np", "allclose"]
             and len(n.args) == 2 and isinstance(n.args[1], ast.BinOp)
             and isinstance(n.args[1].op, ast.MatMult)]
    if len(recon) != 1:
        raise Untranslatable("Bath.__init__: reconstruction assertion")
    out.append("/-- oqupy/bath.py:%d  Bath asserts  %s ≈ %s  (U = eigenvector matrix `v`, "
               "D = np.diag(w)) -/\ndef bath_reconstruction_factors : List String := %s\n"
               "def bath_reconstructs : String := %s\n"
               % (recon[0].lineno, ast.unparse(recon[0].args[0]), ast.unparse(recon[0].args[1]),
                  _c07_lstrs([_c07_factor_tag(f, fb, ()) for f in _c07_matmul_factors(recon[0].args[1])]),
                  _c07_lstr(ast.unparse(recon[0].args[0]))))
    props = {}
    for nm in ("coupling_operator", "unitary_transform"):
        fp = src.function("oqupy/bath.py", "Bath." + nm)
        rets = [ast.unparse(n.value) for n in ast.walk(fp) if isinstance(n, ast.Return)]
        props[nm] = rets
    if props != {"coupling_operator": ["self._coupling_operator.copy()"],
                 "unitary_transform": ["self._unitary.copy()"]}:
        raise Untranslatable("Bath properties: %s" % props)

    # ---- generate_system_correlations ------------------------------------------------
    fg = src.function(rel, "TwoTimeBathCorrelations.generate_system_correlations")
    hits = src.assignment(fg, "coup_op")
    if len(hits) != 1:
        raise Untranslatable("generate_system_correlations: coup_op")
    facs = [_c07_factor_tag(f, fg, ()) for f in _c07_matmul_factors(hits[0].value)]
    out.append("/-- %s:%d  coup_op = %s  as a product of U = bath.unitary_transform, "
               "Ud = its conjugate transpose, D = bath.coupling_operator -/\n"
               "def coup_op_factors : List String := %s\n"
               % (rel, hits[0].lineno, ast.unparse(hits[0].value), _c07_lstrs(facs)))
    calls = _c07_calls(fg, "compute_correlations")
    if len(calls) != 1:
        raise Untranslatable("generate_system_correlations: call of compute_correlations")
    fc = src.function("oqupy/system_dynamics.py", "compute_correlations")
    pnames = [a.arg for a in fc.args.args]
    defaults = dict(zip(pnames[len(pnames) - len(fc.args.defaults):],
                        [ast.unparse(d) for d in fc.args.defaults]))
    bound = list(zip(pnames, [ast.unparse(a) for a in calls[0].args]))
    bound += [(k.arg, ast.unparse(k.value)) for k in calls[0].keywords]
    if any(k is None for k, _ in bound):
        raise Untranslatable("generate_system_correlations: ** in the call")
    out.append("/-- %s:%d  arguments of compute_correlations, bound to its parameter names -/\n"
               "def sys_corr_call : List (String × String) := %s\n"
               "/-- default of `time_order` of compute_correlations -/\n"
               "def sys_corr_default_time_order : String := %s\n"
               % (rel, calls[0].lineno, _c07_lpairs(bound), _c07_lstr(defaults.get("time_order", ""))))
    hits = src.assignment(fg, "corr_mat_dim")
    if len(hits) != 1:
        raise Untranslatable("generate_system_correlations: corr_mat_dim")
    out.append(_c07_corr_def("corr_mat_dim", hits[0].value,
                             {"final_time": "Flt", "dt": "Flt"}, "Int", ["final_time", "dt"],
                             "%s:%d  corr_mat_dim = %s" % (rel, hits[0].lineno,
                                                           ast.unparse(hits[0].value))))
    sl = {}
    for nm in ("times_a", "times_b"):
        vs = [ast.unparse(h.value) for h in src.assignment(fg, nm)]
        sl[nm] = vs
    out.append("/-- the time specifications handed to compute_correlations (first call / extension) -/\n"
               "def sys_corr_times_a : List String := %s\ndef sys_corr_times_b : List String := %s\n"
               % (_c07_lstrs(sl["times_a"]), _c07_lstrs(sl["times_b"])))
    dtsrc = [ast.unparse(h.value) for h in src.assignment(fg, "dt")]
    out.append("def sys_corr_dt_source : List String := %s\n" % _c07_lstrs(dtsrc))
    # every float time -> step conversion of the bath-correlation code, through the float model
    for qual, target, lean_name, params in (
            ("correlation", "corr_mat_dim", "correlation_corr_mat_dim", ["time_2", "dt"]),
            ("_calc_kernel", "ker_dim", "kernel_ker_dim", ["time_2", "dt"]),
            ("_calc_kernel", "switch", "kernel_switch", ["time_1", "dt"])):
        fq = src.function(rel, "TwoTimeBathCorrelations." + qual)
        hs = src.assignment(fq, target)
        if len(hs) != 1:
            raise Untranslatable("%s: %s" % (qual, target))
        out.append(_c07_corr_def(lean_name, hs[0].value,
                                 {"time_1": "Flt", "time_2": "Flt", "dt": "Flt"}, "Int", params,
                                 "%s:%d  %s: %s = %s" % (rel, hs[0].lineno, qual, target,
                                                         ast.unparse(hs[0].value))))
    focc = src.function(rel, "TwoTimeBathCorrelations.occupation")
    hs = src.assignment(focc, "last_time")
    if not hs or len(set(ast.unparse(h.value).replace("len(self._process_tensor)", "corr_mat_dim")
                         .replace("self._process_tensor.dt", "dt") for h in hs)) != 1 \
            or [ast.unparse(h.value) for h in src.assignment(focc, "corr_mat_dim")] \
            != ["len(self._process_tensor)"]:
        raise Untranslatable("occupation: last_time")
    out.append(_c07_corr_def("occupation_last_time", hs[0].value,
                             {"corr_mat_dim": "Int", "dt": "Flt"}, "Flt", ["corr_mat_dim", "dt"],
                             "%s:%d  occupation: last_time = %s  (corr_mat_dim = len(process_tensor))"
                             % (rel, hs[0].lineno, ast.unparse(hs[0].value))))
    # the time axis returned by occupation()
    hs = src.assignment(focc, "tlist")
    if len(hs) != 1:
        raise Untranslatable("occupation: tlist")
    tv = hs[0].value
    doc = "%s:%d  occupation: tlist = %s" % (rel, hs[0].lineno, ast.unparse(tv))
    TY = {"corr_mat_dim": "Int", "dt": "Flt", "last_time": "Flt", "k": "Int"}

    def arange_args(n):
        if isinstance(n, ast.Call) and attr_chain(n.func) == ["np", "arange"] and not n.keywords:
            return n.args
        return None
    if isinstance(tv, ast.BinOp) and isinstance(tv.op, ast.Mult) and (
            (arange_args(tv.left) is not None and len(arange_args(tv.left)) == 1)
            or (arange_args(tv.right) is not None and len(arange_args(tv.right)) == 1)):
        ar, other = (tv.left, tv.right) if arange_args(tv.left) is not None else (tv.right, tv.left)
        tr = _C07Tr(TY)
        cnt = tr.expr(arange_args(ar)[0])
        if cnt[1] != "Int" or any(v not in ("corr_mat_dim",) for v in tr.free):
            raise Untranslatable("occupation: tlist count %s" % ast.unparse(ar))
        tr2 = _C07Tr(TY)
        kk = ast.Name(id="k", ctx=ast.Load())
        lab = tr2.expr(ast.BinOp(left=kk, op=ast.Mult(), right=other) if ar is tv.left
                       else ast.BinOp(left=other, op=ast.Mult(), right=kk))
        if lab[1] != "Flt" or any(v not in ("k", "dt") for v in tr2.free):
            raise Untranslatable("occupation: tlist label %s" % ast.unparse(tv))
        out.append("/-- %s ;  true: an integer range scaled by dt, false: a float-stepped np.arange -/\n"
                   "def occupation_tlist_by_count : Bool := true\n"
                   "/-- number of returned times -/\n"
                   "def occupation_tlist_count (corr_mat_dim : Int) (dt : Rat) : Int :=\n  %s\n"
                   "/-- the k-th returned time -/\n"
                   "def occupation_tlist_label (corr_mat_dim : Int) (dt : Rat) (k : Int) : Rat :=\n  %s\n"
                   % (doc, cnt[0], lab[0]))
    elif arange_args(tv) is not None and len(arange_args(tv)) == 3:
        a0, a1, a2 = arange_args(tv)
        tr = _C07Tr(TY)
        t0, t1, t2 = tr.to_flt(tr.expr(a0)), tr.to_flt(tr.expr(a1)), tr.to_flt(tr.expr(a2))
        if any(v not in ("corr_mat_dim", "dt", "last_time") for v in tr.free):
            raise Untranslatable("occupation: tlist = %s" % ast.unparse(tv))
        let = "let last_time : Rat := occupation_last_time corr_mat_dim dt\n  "
        out.append("/-- %s ;  true: an integer range scaled by dt, false: a float-stepped np.arange -/\n"
                   "def occupation_tlist_by_count : Bool := false\n"
                   "/-- number of returned times: numpy's ceil((stop - start)/step) in binary64 -/\n"
                   "def occupation_tlist_count (corr_mat_dim : Int) (dt : Rat) : Int :=\n  %s"
                   "ceilInt (fdiv (fsub %s %s) %s)\n"
                   "/-- the k-th returned time: start + k*step -/\n"
                   "def occupation_tlist_label (corr_mat_dim : Int) (dt : Rat) (k : Int) : Rat :=\n  %s"
                   "fadd %s (fmul (ofInt k) %s)\n" % (doc, let, t1, t0, t2, let, t0, t2))
    else:
        raise Untranslatable("occupation: tlist = %s" % ast.unparse(tv))
    vals = [ast.unparse(h.value) for h in src.assignment(focc, "bath_occupation")]
    out.append("/-- how the returned occupation values are built (one per column sum, plus the "
               "leading 0) -/\ndef occupation_values : List String := %s\n" % _c07_lstrs(vals))
    # the initial bath contribution (thermal occupation n_th, vacuum +1) of correlation()/occupation():
    # the block is *evaluated* for every combination of its conditions and tabulated
    import collections

    def thermal_of(e):
        m = None
        for fv in ("freq_1", "freq_2", "freq"):
            if ast.unparse(e) == "np.exp(-%s / self._temp) / (1 - np.exp(-%s / self._temp))" % (fv, fv):
                m = fv
        return m

    def ev_cond(e, env, where):
        if isinstance(e, ast.BoolOp):
            vals = [ev_cond(v, env, where) for v in e.values]
            return all(vals) if isinstance(e.op, ast.And) else any(vals)
        if isinstance(e, ast.UnaryOp) and isinstance(e.op, ast.Not):
            return not ev_cond(e.operand, env, where)
        if isinstance(e, ast.Name) and e.id == "change_only":
            return env["change_only"]
        txt = ast.unparse(e)
        if txt == "self._temp > 0":
            return env["temp_pos"]
        if txt in ("freq_1 == freq_2", "freq_2 == freq_1") and "freq_equal" in env:
            return env["freq_equal"]
        if isinstance(e, ast.Compare) and len(e.ops) == 1 and isinstance(e.left, ast.Name) \
                and e.left.id == "dagg" and "dagg" in env:
            try:
                rhs = ast.literal_eval(e.comparators[0])
            except ValueError:
                raise Untranslatable("%s: condition %s" % (where, txt))
            if isinstance(e.ops[0], ast.Eq):
                return env["dagg"] == rhs
            if isinstance(e.ops[0], ast.NotEq):
                return env["dagg"] != rhs
            if isinstance(e.ops[0], ast.In):
                return env["dagg"] in rhs
        raise Untranslatable("%s: condition %s" % (where, txt))

    def ev_terms(e, env, loc, where):
        if isinstance(e, ast.BinOp) and isinstance(e.op, ast.Add):
            return ev_terms(e.left, env, loc, where) + ev_terms(e.right, env, loc, where)
        if isinstance(e, ast.Constant) and e.value == 1 and not isinstance(e.value, bool):
            return collections.Counter(one=1)
        if isinstance(e, ast.Name) and e.id in loc:
            return collections.Counter(loc[e.id])
        fv = thermal_of(e)
        if fv is not None:
            if fv == "freq_2" and not env.get("freq_equal", False):
                return collections.Counter(n_th_other=1)
            return collections.Counter(n_th=1)
        raise Untranslatable("%s: added term %s" % (where, ast.unparse(e)))

    def run_block(stmts, env, loc, acc, target, where):
        for st in stmts:
            if isinstance(st, ast.If):
                run_block(st.body if ev_cond(st.test, env, where) else st.orelse, env, loc, acc,
                          target, where)
            elif isinstance(st, ast.Assign) and len(st.targets) == 1 \
                    and isinstance(st.targets[0], ast.Name) and st.targets[0].id != target:
                loc[st.targets[0].id] = ev_terms(st.value, env, loc, where)
            elif isinstance(st, ast.AugAssign) and isinstance(st.op, ast.Add) \
                    and isinstance(st.target, ast.Name) and st.target.id == target:
                acc.update(ev_terms(st.value, env, loc, where))
            else:
                raise Untranslatable("%s: statement %s" % (where, ast.unparse(st)[:80]))

    fcor = src.function(rel, "TwoTimeBathCorrelations.correlation")
    body = [st for st in fcor.body if not (isinstance(st, ast.Expr) and isinstance(st.value, ast.Constant))]
    i0 = [i for i, st in enumerate(body) if isinstance(st, ast.Assign)
          and ast.unparse(st.targets[0]) == "correlation"]
    i1 = [i for i, st in enumerate(body) if isinstance(st, ast.If)
          and ast.unparse(st.test) == "not interaction_picture"]
    if len(i0) != 1 or len(i1) != 1 or not i0[0] < i1[0] or i1[0] != len(body) - 2 \
            or ast.unparse(body[-1]) != "return correlation":
        raise Untranslatable("correlation: layout of the final statements")
    block = body[i0[0] + 1:i1[0]]
    phase = body[i1[0]]
    if len(phase.body) != 1 or not (isinstance(phase.body[0], ast.AugAssign)
                                    and isinstance(phase.body[0].op, ast.Mult)) or phase.orelse:
        raise Untranslatable("correlation: interaction-picture phase")
    rows = []
    for co in (False, True):
        for tp in (False, True):
            for fe in (False, True):
                for dg in ((0, 0), (0, 1), (1, 0), (1, 1)):
                    acc = collections.Counter()
                    run_block(block, {"change_only": co, "temp_pos": tp, "freq_equal": fe, "dagg": dg},
                              {}, acc, "correlation", "correlation/initial contribution")
                    rows.append("(%s, %s, %s, %d, %d, %d, %d, %d)" % (
                        str(co).lower(), str(tp).lower(), str(fe).lower(), dg[0], dg[1],
                        acc["n_th"], acc["one"], acc["n_th_other"]))
    out.append("/-- %s:%d  correlation(): what is added to the kernel sum before the interaction-picture "
               "phase, for every (change_only, T > 0, freq_1 == freq_2, dagg): "
               "(.., number of n_th(freq_1) terms, number of +1 terms, thermal terms of another "
               "frequency) -/\n"
               "def correlation_initial_table : List (Bool × Bool × Bool × Nat × Nat × Nat × Nat × Nat) :=\n"
               "  [%s]\n" % (rel, block[0].lineno if block else fcor.lineno, ",\n   ".join(rows)))
    out.append("/-- the phase `%s` multiplies the sum including the initial contribution -/\n"
               "def correlation_phase : String := %s\n"
               % (ast.unparse(phase.body[0]).replace("-/", "- /"), _c07_lstr(ast.unparse(phase.body[0].value))))
    obody = [st for st in focc.body if not (isinstance(st, ast.Expr) and isinstance(st.value, ast.Constant))]
    j0 = [i for i, st in enumerate(obody) if isinstance(st, ast.Assign)
          and ast.unparse(st.targets[0]) == "bath_occupation"]
    if not j0 or not isinstance(obody[-1], ast.Return) \
            or ast.unparse(obody[-1].value) != "(tlist, bath_occupation)":
        raise Untranslatable("occupation: layout of the final statements")
    oblock = obody[j0[-1] + 1:-1]
    orows = []
    for co in (False, True):
        for tp in (False, True):
            acc = collections.Counter()
            run_block(oblock, {"change_only": co, "temp_pos": tp}, {}, acc, "bath_occupation",
                      "occupation/initial contribution")
            orows.append("(%s, %s, %d, %d)" % (str(co).lower(), str(tp).lower(), acc["n_th"],
                                                acc["one"] + acc["n_th_other"]))
    out.append("/-- %s  occupation(): what is added to every occupation value, for every "
               "(change_only, T > 0): (.., number of n_th(freq) terms, other terms) -/\n"
               "def occupation_initial_table : List (Bool × Bool × Nat × Nat) :=\n  [%s]\n"
               % (rel, ", ".join(orows)))
    # coupling prefactors: which band width multiplies the spectral density of which frequency
    SD = "self._bath.correlations.spectral_density"

    class _SdSubst(ast.NodeTransformer):
        def __init__(self, fnode):
            self.alias = {SD}
            for n in ast.walk(fnode):
                if isinstance(n, ast.Assign) and len(n.targets) == 1 and isinstance(n.targets[0], ast.Name) \
                        and ast.unparse(n.value) == SD:
                    self.alias.add(n.targets[0].id)

        def sd_arg(self, n):
            if isinstance(n, ast.Call) and ast.unparse(n.func) in self.alias and len(n.args) == 1 \
                    and not n.keywords and isinstance(n.args[0], ast.Name):
                return n.args[0].id
            return None

        def visit_BinOp(self, n):
            if isinstance(n.op, ast.Pow) and self.sd_arg(n.left) is not None \
                    and isinstance(n.right, ast.Constant) and n.right.value == 0.5:
                return ast.Name(id="sqrtJ_" + self.sd_arg(n.left), ctx=ast.Load())
            return self.generic_visit(n)

        def visit_Call(self, n):
            if self.sd_arg(n) is not None:
                return ast.Name(id="J_" + self.sd_arg(n), ctx=ast.Load())
            return self.generic_visit(n)

    cparams = ["dw_0", "dw_1", "sqrtJ_freq_1", "sqrtJ_freq_2"]
    sub = _SdSubst(fcor)
    for nm in ("coup_1", "coup_2"):
        hs = src.assignment(fcor, nm)
        if len(hs) != 1:
            raise Untranslatable("correlation: %s" % nm)
        tr = _C07K(cparams)
        term = tr.expr(sub.visit(ast.parse(ast.unparse(hs[0].value), mode="eval").body))
        out.append(_c07_kdef("correlation_" + nm, term, cparams,
                             "%s:%d  correlation: %s = %s  (sqrtJ_f = spectral_density(f)**0.5)"
                             % (rel, hs[0].lineno, nm, ast.unparse(hs[0].value)), with_E=False))
    use = [ast.unparse(st.value) for st in body[i0[0]:i0[0] + 1]]
    if not use[0].replace(" ", "").endswith(")*coup_1*coup_2"):
        raise Untranslatable("correlation: the kernel sum is not multiplied by coup_1 * coup_2")
    out.append("/-- correlation = <kernel sum> * coup_1 * coup_2 -/\n"
               "def correlation_coup_use : String := \"<kernel sum> * coup_1 * coup_2\"\n")
    hs = src.assignment(focc, "coup")
    if len(hs) != 1:
        raise Untranslatable("occupation: coup")
    tr = _C07K(["dw", "J_freq"])
    term = tr.expr(_SdSubst(focc).visit(ast.parse(ast.unparse(hs[0].value), mode="eval").body))
    out.append(_c07_kdef("occupation_coup", term, ["dw", "J_freq"],
                         "%s:%d  occupation: coup = %s  (J_f = spectral_density(f))"
                         % (rel, hs[0].lineno, ast.unparse(hs[0].value)), with_E=False))
    ouse = [ast.unparse(h.value) for h in src.assignment(focc, "bath_occupation")][:1]
    if not ouse or not ouse[0].replace(" ", "").endswith(").real*coup"):
        raise Untranslatable("occupation: the cumulated kernel sum is not multiplied by coup")
    dwdef = {}
    for fq, fnode in (("correlation", fcor), ("occupation", focc)):
        an = [a.arg for a in fnode.args.args]
        dfl = dict(zip(an[len(an) - len(fnode.args.defaults):], [ast.unparse(d) for d in fnode.args.defaults]))
        dwdef[fq] = dfl.get("dw", "")
    out.append("/-- defaults of `dw` -/\ndef dw_defaults : List (String × String) := %s\n"
               % _c07_lpairs(sorted(dwdef.items())))
    # other int()/np.round/np.floor/np.ceil conversions in the class would be a new site
    fcls = src.function(rel, "TwoTimeBathCorrelations")
    conv = sorted(ast.unparse(n) for n in ast.walk(fcls) if isinstance(n, ast.Call)
                  and attr_chain(n.func) in (["int"], ["round"], ["np", "floor"], ["np", "ceil"],
                                             ["np", "rint"], ["np", "trunc"]))
    out.append("/-- every int()/floor/ceil/rint/trunc call in TwoTimeBathCorrelations -/\n"
               "def bath_int_conversions : List String := %s\n" % _c07_lstrs(conv))

    # ---- _calc_kernel: cell formulas -------------------------------------------------
    fk = src.function(rel, "TwoTimeBathCorrelations._calc_kernel")
    ph = [n for n in fk.body if isinstance(n, ast.FunctionDef) and n.name == "phase"]
    if len(ph) != 1:
        raise Untranslatable("_calc_kernel: inner function phase")
    ph = ph[0]
    mesh = [n for n in ast.walk(fk) if isinstance(n, ast.Assign) and isinstance(n.value, ast.Call)
            and attr_chain(n.value.func) == ["np", "meshgrid"]]
    if len(mesh) != 1 or ast.unparse(mesh[0].targets[0]) != "(tpp_index, tp_index)" \
            or [ast.unparse(k.value) for k in mesh[0].value.keywords if k.arg == "indexing"] != ["'ij'"]:
        raise Untranslatable("_calc_kernel: meshgrid")
    tks = {t: [ast.unparse(h.value) for h in src.assignment(ph, t)] for t in ("tk", "tkp")}
    if tks != {"tk": ["tp_index[regions[region]]"], "tkp": ["tpp_index[regions[region]]"]}:
        raise Untranslatable("_calc_kernel/phase: tk, tkp = %s" % tks)
    out.append("/-- %s:%d  index orientation: `tpp_index, tp_index = meshgrid(.., indexing='ij')`, "
               "tk = tp_index (column = later time t'), tkp = tpp_index (row = earlier time t'') -/\n"
               "def kernel_tk_is_column : Bool := true\n" % (rel, mesh[0].lineno))
    ab = {}
    for nm in ("a", "b"):
        hs = [h for h in src.assignment(ph, nm)]
        if len(hs) != 1:
            raise Untranslatable("_calc_kernel/phase: %s" % nm)
        tr = _C07K(["I", "dagg_0", "dagg_1", "freq_1", "freq_2"])
        term = tr.expr(hs[0].value)
        ab[nm] = tr.free
        out.append(_c07_kdef("phase_" + nm, term, tr.free,
                             "%s:%d  %s = %s" % (rel, hs[0].lineno, nm, ast.unparse(hs[0].value)),
                             with_E=False))
    swaps = [ast.unparse(s) for s in ph.body if isinstance(s, ast.If)
             and ast.unparse(s.test) == "swap_ts"]
    if swaps != ["if swap_ts:\n    a, b = (b, a)"]:
        raise Untranslatable("_calc_kernel/phase: swap_ts block %s" % swaps)
    reg_if = [s for s in ph.body if isinstance(s, ast.If) and ast.unparse(s.test) == "region in ('a', 'c')"]
    if len(reg_if) != 1:
        raise Untranslatable("_calc_kernel/phase: region test")
    reg_if = reg_if[0]

    def untriu(v):
        if isinstance(v, ast.Call) and attr_chain(v.func) == ["np", "triu"] and len(v.args) == 1 \
                and [(k.arg, ast.unparse(k.value)) for k in v.keywords] == [("k", "1")]:
            return v.args[0]
        raise Untranslatable("_calc_kernel/phase: expected np.triu(.., k=1), got %s" % ast.unparse(v)[:60])

    tri_terms = _c07_signed_terms([s for s in reg_if.body
                                   if not (isinstance(s, ast.AugAssign)
                                           and ast.unparse(s.value) == "np.diag(di)")], "ph", untriu)
    if len(tri_terms) != 4:
        raise Untranslatable("_calc_kernel/phase: off-diagonal terms of regions a, c")
    closing = [ast.unparse(s) for s in reg_if.body if isinstance(s, ast.AugAssign)
               and ast.unparse(s.value) == "np.diag(di)"]
    if closing != ["ph += np.diag(di)"] or \
            [ast.unparse(h.value) for h in src.assignment(ph, "sel")] != ["np.diag(tk)"]:
        raise Untranslatable("_calc_kernel/phase: diagonal of regions a, c")
    cellvars = ["a", "b", "dt", "tk", "tkp"]
    tr = _C07K(cellvars)
    out.append(_c07_kdef("phase_cell_tri", _c07_sum(tr, tri_terms), cellvars,
                         "%s:%d  regions a, c strictly above the diagonal (np.triu(.., k=1)): "
                         "the four terms of `ph`" % (rel, reg_if.lineno)))
    rect_terms = _c07_signed_terms(reg_if.orelse, "ph", lambda v: v)
    if len(rect_terms) != 4:
        raise Untranslatable("_calc_kernel/phase: terms of region b")
    tr = _C07K(cellvars)
    out.append(_c07_kdef("phase_cell_rect", _c07_sum(tr, rect_terms), cellvars,
                         "%s:%d  region b: the four terms of `ph`" % (rel, reg_if.lineno)))
    di_if = [s for s in reg_if.body if isinstance(s, ast.If)]
    if len(di_if) != 1 or ast.unparse(di_if[0].test) != "a + b != 0":
        raise Untranslatable("_calc_kernel/phase: `if a + b != 0`")
    di0 = _c07_signed_terms(reg_if.body, "di", lambda v: v)
    if len(di0) != 1:
        raise Untranslatable("_calc_kernel/phase: di")
    diagvars = ["a", "b", "dt", "sel"]
    def aug_terms(stmts):
        res = []
        for st in stmts:
            sg = {ast.Add: 1, ast.Sub: -1}.get(type(st.op)) if isinstance(st, ast.AugAssign) else None
            if sg is None or not (isinstance(st.target, ast.Name) and st.target.id == "di"):
                raise Untranslatable("_calc_kernel/phase: diagonal branch statement")
            res.append((sg, st.value))
        return res
    tr = _C07K(diagvars)
    out.append(_c07_kdef("phase_diag_generic", _c07_sum(tr, di0 + aug_terms(di_if[0].body)),
                         diagvars, "%s:%d  diagonal cell of regions a, c when a + b != 0"
                         % (rel, di_if[0].lineno)))
    tr = _C07K(diagvars)
    out.append(_c07_kdef("phase_diag_degenerate", _c07_sum(tr, di0 + aug_terms(di_if[0].orelse)),
                         diagvars, "%s:%d  diagonal cell of regions a, c when a + b == 0"
                         % (rel, di_if[0].lineno)))
    # regions and the kernel tables
    regs = [h for h in src.assignment(fk, "regions")]
    if len(regs) != 1 or not isinstance(regs[0].value, ast.Dict):
        raise Untranslatable("_calc_kernel: regions")
    out.append("/-- %s:%d  regions[...] = (rows = earlier time t'', columns = later time t') -/\n"
               "def kernel_regions : List (String × String) := %s\n"
               % (rel, regs[0].lineno,
                  _c07_lpairs([(k.value, ast.unparse(v)) for k, v in
                               zip(regs[0].value.keys, regs[0].value.values)])))
    rows = []
    node = [s for s in fk.body if isinstance(s, ast.If) and ast.unparse(s.test).startswith("dagg == ")]
    if len(node) != 1:
        raise Untranslatable("_calc_kernel: dagg chain")
    node = node[0]
    while True:
        dg = ast.unparse(node.test)[len("dagg == "):]
        for s in node.body:
            if not (isinstance(s, ast.Assign) and isinstance(s.targets[0], ast.Subscript)):
                raise Untranslatable("_calc_kernel: kernel assignment")
            rows.append((dg + " " + ast.unparse(s.targets[0]), ast.unparse(s.value)))
        if len(node.orelse) == 1 and isinstance(node.orelse[0], ast.If):
            node = node.orelse[0]
        elif not node.orelse:
            break
        else:
            raise Untranslatable("_calc_kernel: dagg chain tail")
    out.append("/-- %s  how the kernels are assembled from `phase` per `dagg` -/\n"
               "def kernel_table : List (String × String) := %s\n" % (rel, _c07_lpairs(rows)))
    fin = [ast.unparse(h.value) for nm in ("re_kernel", "im_kernel") for h in src.assignment(fk, nm)]
    out.append("def kernel_finish : List String := %s\n" % _c07_lstrs(fin))
    nth = sorted(set(ast.unparse(s.value) for s in ast.walk(fk) if isinstance(s, ast.AugAssign)
                     and isinstance(s.target, ast.Name) and s.target.id in ("n_1", "n_2")))
    out.append("def kernel_thermal : List String := %s\n" % _c07_lstrs(nth))

    # ---- occupation / correlation: what feeds them ------------------------------------
    for meth in ("occupation", "correlation"):
        fm = src.function(rel, "TwoTimeBathCorrelations." + meth)
        gen = [ast.unparse(c) for c in ast.walk(fm) if isinstance(c, ast.Call)
               and ast.unparse(c.func) == "self.generate_system_correlations"]
        ker = [ast.unparse(c) for c in ast.walk(fm) if isinstance(c, ast.Call)
               and ast.unparse(c.func) == "self._calc_kernel"]
        used = sorted(set(ast.unparse(n) for n in ast.walk(fm) if isinstance(n, ast.BinOp)
                          and "re_kernel" in ast.unparse(n) and "im_kernel" in ast.unparse(n)
                          and isinstance(n.op, ast.Add)), key=len)[:1]
        out.append("/-- %s:%d  %s: the calls that produce system correlations and kernels, and how "
                   "they are combined -/\ndef %s_feeds : List String := %s\n"
                   % (rel, fm.lineno, meth, meth, _c07_lstrs(gen + ker + used)))
    return "\n".join(out)


# ---------------------------------------------------------------------------
# UniqueSums (C06): the vectors that close the north / west legs of the TEMPO, mean-field TEMPO
# and PT-TEMPO networks, with and without degeneracy reduction
# ---------------------------------------------------------------------------

EXTRA_IMPORTS["UniqueSums"] = "import OQuPyVerif.Model.Degeneracy\n"


@fragment("UniqueSums")
def frag_uniquesums(src):
    out = ["open OQuPyVerif.Degeneracy\n"]

    def vec(node, where, leg):
        """np.ones(<len>, dtype=float)"""
        if isinstance(node, ast.ListComp):
            node = node.elt
        import re as _re
        flat = "".join(ast.unparse(node).split())
        m = _re.fullmatch(r"np\.bincount\((?:self\._bath|bath)\.(north|west)_degeneracy_map\)"
                          r"(?:\.astype\(float\))?", flat)
        if m:
            # one entry per class holding the number of Liouville indices in the class
            if m.group(1) != leg:
                raise Untranslatable("%s: the %s vector is built from the %s map" % (where, leg, m.group(1)))
            return '⟨.classSizes, .classCount "%s"⟩' % leg
        if not (isinstance(node, ast.Call) and attr_chain(node.func) == ["np", "ones"]
                and len(node.args) == 1
                and all(k.arg == "dtype" and ast.unparse(k.value) == "float" for k in node.keywords)):
            raise Untranslatable("%s: closing vector is not np.ones(n, dtype=float): %s"
                                 % (where, ast.unparse(node)[:100]))
        ln = "".join(ast.unparse(node.args[0]).split())
        m = _re.fullmatch(r"np\.max\((?:self\._bath|bath)\.(north|west)_degeneracy_map\)\+1", ln)
        if m:
            if m.group(1) != leg:
                raise Untranslatable("%s: the %s vector is sized by the %s map" % (where, leg, m.group(1)))
            return '⟨.ones, .classCount "%s"⟩' % leg
        if ln in ("dim**2", "self._dimension**2"):
            return "⟨.ones, .full⟩"
        raise Untranslatable("%s: cannot read the length %s" % (where, ln))

    for rel, qual, pre, suffix in (
            ("oqupy/tempo.py", "Tempo._prepare_backend", "tempo", ""),
            ("oqupy/tempo.py", "MeanFieldTempo._prepare_backend", "mft", "_list"),
            ("oqupy/pt_tempo.py", "PtTempo._init_pt_tempo_backend", "pt", "")):
        fn = src.function(rel, qual)
        ifs = [st for st in fn.body if isinstance(st, ast.If)
               and ast.unparse(st.test) == "self._unique"]
        if len(ifs) != 1:
            raise Untranslatable("%s: expected one `if self._unique:` block" % qual)
        names = ("sum_north" + suffix, "sum_west" + suffix)
        # nothing else may touch the vectors
        for n in ast.walk(fn):
            if isinstance(n, (ast.Assign, ast.AugAssign)):
                tg = n.targets if isinstance(n, ast.Assign) else [n.target]
                for t in tg:
                    base = t
                    while isinstance(base, (ast.Subscript, ast.Attribute)):
                        base = base.value
                    if isinstance(base, ast.Name) and base.id in names:
                        inside = any(n is m for b in (ifs[0].body, ifs[0].orelse)
                                     for st in b for m in ast.walk(st))
                        if not inside or not isinstance(t, ast.Name):
                            raise Untranslatable("%s: %s is modified outside the unique/else "
                                                 "blocks" % (qual, base.id))
        for branch, tag in ((ifs[0].body, "unique"), (ifs[0].orelse, "full")):
            found = {}
            for st in branch:
                if isinstance(st, ast.Assign) and len(st.targets) == 1 \
                        and isinstance(st.targets[0], ast.Name) and st.targets[0].id in names:
                    leg = "north" if "north" in st.targets[0].id else "west"
                    if leg in found:
                        raise Untranslatable("%s: %s assigned twice" % (qual, st.targets[0].id))
                    found[leg] = (vec(st.value, qual, leg), st.lineno)
            for leg in ("north", "west"):
                if leg not in found:
                    raise Untranslatable("%s: no sum_%s in the %s branch" % (qual, leg, tag))
                out.append("/-- %s:%d  %s -/\ndef %s_sum_%s_%s : CloseVec := %s\n"
                           % (rel, found[leg][1], qual, pre, leg, tag, found[leg][0]))
        # the vectors are handed to the backend as they are
        calls = [n for n in ast.walk(fn) if isinstance(n, ast.Call) and attr_chain(n.func)
                 and attr_chain(n.func)[-1] in ("TempoBackend", "MeanFieldTempoBackend", "PtTempoBackend",
                                                "backend_class")]
        text = " ".join(ast.unparse(fn).split())
        for nm in names:
            uses = [n for n in ast.walk(fn) if isinstance(n, ast.Name) and n.id == nm
                    and isinstance(n.ctx, ast.Load)]
            if len(uses) != 1:
                raise Untranslatable("%s: %s is read %d times (expected once: the backend "
                                     "argument)" % (qual, nm, len(uses)))
    out.append(_us_influence_wrappers(src))
    return "\n".join(out)


def _us_influence_wrappers(src):
    """`Tempo._influence`, `PtTempo._influence` and `MeanFieldTempo._get_influence`: the table the
    backend receives for a step distance dk is `influence_matrix(dk, ...)` of the object's own
    parameters / bath, read at the first position of every class of the bath's OWN degeneracy maps
    (computed on the spot) when unique, in full otherwise — nothing is kept between requests."""
    def norm(n):
        return "".join(ast.unparse(n).split())

    def pos(b, leg):
        return ("np.array([np.where(%s.%s_degeneracy_map==i)[0][0]foriinrange(np.max(%s.%s_degeneracy_map)+1)])"
                % (b, leg, b, leg))

    def check_call(call, where, b, corr):
        want = {"parameters": "self._parameters", "correlations": corr,
                "coupling_acomm": b + ".coupling_acomm", "coupling_comm": b + ".coupling_comm",
                "deg_positions": "tmp_deg_positions"}
        if not (isinstance(call, ast.Call) and attr_chain(call.func) == ["influence_matrix"]
                and len(call.args) == 1 and norm(call.args[0]) == "dk"
                and {k.arg: norm(k.value) for k in call.keywords} == want):
            raise Untranslatable("%s: the table is not influence_matrix(dk, <own parameters, "
                                 "correlations, coupling>, deg_positions=tmp_deg_positions): %s"
                                 % (where, ast.unparse(call)[:120]))

    def check_positions(st, where, b):
        if not (isinstance(st, ast.If) and norm(st.test) == "self._unique"):
            raise Untranslatable("%s: expected `if self._unique:` first, found %s"
                                 % (where, ast.unparse(st)[:80]))
        body = [norm(x) for x in st.body]
        if body != ["tmp_north_deg_positions=" + pos(b, "north"),
                    "tmp_west_deg_positions=" + pos(b, "west"),
                    "tmp_deg_positions=[tmp_north_deg_positions,tmp_west_deg_positions]"] \
                or [norm(x) for x in st.orelse] != ["tmp_deg_positions=None"]:
            raise Untranslatable("%s: the representative positions are not computed on the spot "
                                 "from %s's own degeneracy maps" % (where, b))

    lines = []
    for rel, qual in (("oqupy/tempo.py", "Tempo._influence"), ("oqupy/pt_tempo.py", "PtTempo._influence")):
        fn = src.function(rel, qual)
        body = [s_ for s_ in fn.body if not (isinstance(s_, ast.Expr) and isinstance(s_.value, ast.Constant))]
        if len(body) != 2 or not isinstance(body[1], ast.Return):
            raise Untranslatable("%s: expected `if self._unique: ... else: ...; return "
                                 "influence_matrix(...)`, found %d statements" % (qual, len(body)))
        check_positions(body[0], qual, "self._bath")
        check_call(body[1].value, qual, "self._bath", "self._correlations")
        lines.append("/-- %s:%d  %s -/\ndef %s_influence_is_own_table : Bool := true\n"
                     % (rel, fn.lineno, qual, "tempo" if qual.startswith("Tempo") else "pt"))
    rel, qual = "oqupy/tempo.py", "MeanFieldTempo._get_influence"
    fn = src.function(rel, qual)
    body = [s_ for s_ in fn.body if not (isinstance(s_, ast.Expr) and isinstance(s_.value, ast.Constant))]
    if [a.arg for a in fn.args.args] != ["self", "bath"] or len(body) != 3 \
            or not isinstance(body[1], ast.FunctionDef) or norm(body[2]) != "returninfluence":
        raise Untranslatable(qual + ": expected positions; def influence(dk); return influence")
    check_positions(body[0], qual, "bath")
    inner = [s_ for s_ in body[1].body if not (isinstance(s_, ast.Expr) and isinstance(s_.value, ast.Constant))]
    if body[1].name != "influence" or [a.arg for a in body[1].args.args] != ["dk"] or len(inner) != 1 \
            or not isinstance(inner[0], ast.Return):
        raise Untranslatable(qual + ": inner function is not `def influence(dk): return influence_matrix(...)`")
    check_call(inner[0].value, qual, "bath", "bath.correlations")
    # one closure per bath, made by calling the factory with that bath
    prep = src.function(rel, "MeanFieldTempo._prepare_backend")
    hits = src.assignment(prep, "influence_list")
    if len(hits) != 1 or norm(hits[0].value) != \
            "[self._get_influence(bath)forbathinself._parsed_parameters_dict['bath']]":
        raise Untranslatable("MeanFieldTempo._prepare_backend: influence_list is not "
                             "[self._get_influence(bath) for bath in <baths>]")
    lines.append("/-- %s:%d  %s (one closure per bath) -/\ndef mft_influence_is_own_table : Bool := true\n"
                 % (rel, fn.lineno, qual))
    return "\n".join(lines)


def main():
    ap = argparse.ArgumentParser()
    ap.add_argument("--repo", default="/repo")
    ap.add_argument("--out", required=True)
    ap.add_argument("fragments", nargs="*")
    a = ap.parse_args()
    src = Source(a.repo)
    names = a.fragments or sorted(FRAGMENTS)
    os.makedirs(a.out, exist_ok=True)
    rc = 0
    for n in names:
        path = os.path.join(a.out, n + ".lean")
        try:
            body = FRAGMENTS[n](src)
        except (Untranslatable, SyntaxError, OSError, KeyError) as e:
            print("translator cannot read fragment %s: %s" % (n, e))
            rc = 2
            continue
        text = HEADER % (n, EXTRA_IMPORTS.get(n, ""), n) + body + "\nend OQuPyVerif.Generated.%s\n" % n
        old = open(path).read() if os.path.exists(path) else None
        if old != text:
            with open(path, "w") as f:
                f.write(text)
            print("regenerated %s" % path)
        else:
            print("unchanged %s" % path)
    sys.exit(rc)


if __name__ == "__main__":
    main()
